------------------------------ MODULE Schedule ------------------------------
(***************************************************************************)
(* Implementation-shaped model of run_schedule (src/system/schedule):       *)
(*  - compile-time greedy staging (Access!StageOf);                          *)
(*  - stages run one after the other (stages.rs);                            *)
(*  - inside a stage every task that has not run yet is forked in declared   *)
(*    order by nested joins; forking a task first records its per-archetype  *)
(*    claims in `borrowed` and merges its resource claims (stage.rs run);    *)
(*  - after the last task of the stage has been forked, the tasks of the     *)
(*    NEXT stage are scanned in order ("add-ons"): a task whose resource     *)
(*    claims and per-archetype claims merge without conflict with what is    *)
(*    borrowed is forked right away and marked has_run (stage.rs             *)
(*    run_add_ons);                                                          *)
(*  - the joins return when every forked task has finished.                  *)
(* A forked task may execute at any time before its join: one action per     *)
(* task execution, enabled from its fork on, so TLC explores every order     *)
(* the fork/join structure admits.                                           *)
(*                                                                         *)
(* DupKeys = TRUE models the code as it was before the fix: every task of    *)
(* the stage appended its own <<archetype, claims>> entry and the add-on      *)
(* check consulted one (arbitrary) entry per archetype.                      *)
(***************************************************************************)
EXTENDS Naturals, Sequences, FiniteSets, TLC, Access

CONSTANTS Kinds,      \* set of task descriptors (the alphabet)
          AllArchs,   \* set of archetypes (sets of components) that may hold rows
          MaxTasks,
          DupKeys

Comp == UNION AllArchs
VARIABLES tasks, archs,      \* chosen once: the schedule and the world content
          stage, next,        \* current stage number; index of the next task to consider
          phase,              \* "fork" | "addon" | "join" | "done"
          open,               \* tasks forked and not yet joined
          ran, hasrun,        \* tasks executed; tasks started early by the previous stage
          borrowed, rclaims,  \* claims of the running stage
          cells, reads,       \* abstract memory: writers of each cell in order; what each task read
          coopen, early
vars == <<tasks, archs, stage, next, phase, open, ran, hasrun, borrowed, rclaims, cells, reads, coopen, early>>

NT == Len(tasks)
Stage(t) == StageOf(tasks, t)
LastStage == Stage(NT)
InStage(k) == {t \in 1..NT : Stage(t) = k}
Cells == {<<a, c>> : a \in archs, c \in Comp} \cup {<<{"res"}, r>> : r \in DOMAIN tasks[1].res}
CellsOf(t) ==   \* cell -> claim of task t
  [x \in Cells |-> IF x[1] = {"res"} THEN Claim(tasks[t].res[x[2]])
                   ELSE IF x[2] \in x[1] THEN CellClaim(tasks[t], x[1], x[2]) ELSE "none"]

(* per-archetype claims as the code computes them: the task's view and entry-view claims on the
   archetypes matched by Or<And<Views, Filter>, EntryViewsFilter> *)
EntryReach(q, a) == \E c \in a : q.entry[c] # "none"
Claimed(q, a) == Matches(q, a) \/ EntryReach(q, a)
ArchClaims(q, a) == [c \in Comp |-> StaticClaim(q, c)]
MergeOK(x, y) == \A c \in Comp : ~Conflict(x[c], y[c])
Merge(x, y) == [c \in Comp |-> JoinClaim(x[c], y[c])]
ResClaims(q) == [r \in DOMAIN q.res |-> Claim(q.res[r])]
RMergeOK(x, y) == \A r \in DOMAIN x : ~Conflict(x[r], y[r])
RMerge(x, y) == [r \in DOMAIN x |-> JoinClaim(x[r], y[r])]
NoRes == [r \in DOMAIN tasks[1].res |-> "none"]

(* `borrowed` is a set of <<archetype, claims>> entries *)
AddClaims(b, q) ==
  IF DupKeys
  THEN b \cup {<<a, ArchClaims(q, a)>> : a \in {a \in archs : Claimed(q, a)}}
  ELSE LET mine == {a \in archs : Claimed(q, a)} IN
       {e \in b : e[1] \notin mine}
       \cup {<<a, IF \E e \in b : e[1] = a
                  THEN Merge((CHOOSE e \in b : e[1] = a)[2], ArchClaims(q, a))
                  ELSE ArchClaims(q, a)>> : a \in mine}

Init ==
  /\ \E n \in 1..MaxTasks : tasks \in [1..n -> Kinds]
  /\ archs \in SUBSET AllArchs
  /\ stage = 1 /\ next = 1 /\ phase = "fork"
  /\ open = {} /\ ran = {} /\ hasrun = {}
  /\ borrowed = {} /\ rclaims = NoRes
  /\ cells = [x \in Cells |-> <<>>]
  /\ reads = [t \in 1..NT |-> <<>>]
  /\ coopen = {} /\ early = {}

Fork(t) ==
  /\ open' = open \cup {t}
  /\ coopen' = coopen \cup {{t, u} : u \in open}
  /\ early' = IF \E u \in open : Stage(u) < Stage(t) THEN early \cup {t} ELSE early

(* Stage::run for the next task of the stage *)
ForkNext ==
  /\ phase = "fork"
  /\ IF next <= NT /\ Stage(next) = stage
     THEN IF next \in hasrun
          THEN /\ next' = next + 1
               /\ UNCHANGED <<open, coopen, early, borrowed, rclaims, phase>>
          ELSE /\ Fork(next)
               /\ borrowed' = AddClaims(borrowed, tasks[next])
               /\ rclaims' = RMerge(rclaims, ResClaims(tasks[next]))
               /\ next' = next + 1
               /\ UNCHANGED phase
     ELSE \* stage::Null: run the add-on scan of the next stage unless nothing is borrowed
          /\ phase' = IF borrowed = {} \/ stage = LastStage THEN "join" ELSE "addon"
          /\ UNCHANGED <<next, open, coopen, early, borrowed, rclaims>>
  /\ UNCHANGED <<tasks, archs, stage, ran, hasrun, cells, reads>>

(* Stage::run_add_ons for the next task of the following stage *)
AddOnNext ==
  /\ phase = "addon"
  /\ IF next <= NT /\ Stage(next) = stage + 1
     THEN LET q == tasks[next]
              mine == {a \in archs : Claimed(q, a)} IN
          \/ \* try_merge of resources, then of every claimed archetype against the entry found
             /\ RMergeOK(ResClaims(q), rclaims)
             /\ \E pick \in [mine -> borrowed \cup {<<{"none"}, [c \in Comp |-> "none"]>>}] :
                   /\ \A a \in mine :
                         IF \E e \in borrowed : e[1] = a
                         THEN pick[a][1] = a /\ MergeOK(ArchClaims(q, a), pick[a][2])
                         ELSE pick[a][1] = {"none"}
                   /\ Fork(next)
                   /\ hasrun' = hasrun \cup {next}
                   /\ rclaims' = RMerge(rclaims, ResClaims(q))
                   /\ borrowed' = AddClaims(borrowed, q)
          \/ /\ ~(/\ RMergeOK(ResClaims(q), rclaims)
                  /\ \A a \in mine : \A e \in borrowed : e[1] = a => MergeOK(ArchClaims(q, a), e[2]))
             /\ UNCHANGED <<open, coopen, early, hasrun, rclaims, borrowed>>
          /\ next' = next + 1 /\ UNCHANGED phase
     ELSE /\ phase' = "join"
          /\ UNCHANGED <<next, open, coopen, early, hasrun, rclaims, borrowed>>
  /\ UNCHANGED <<tasks, archs, stage, ran, cells, reads>>

(* a forked task executes (atomically): reads the cells it claims immutably, appends itself to the
   history of every cell it claims mutably *)
Exec(t) ==
  /\ t \in open /\ t \notin ran
  /\ ran' = ran \cup {t}
  /\ reads' = [reads EXCEPT ![t] = [x \in {x \in Cells : CellsOf(t)[x] # "none"} |-> cells[x]]]
  /\ cells' = [x \in Cells |-> IF CellsOf(t)[x] = "mut" THEN Append(cells[x], t) ELSE cells[x]]
  /\ UNCHANGED <<tasks, archs, stage, next, phase, open, hasrun, borrowed, rclaims, coopen, early>>

(* the joins return once every forked task has finished; the next stage starts with empty claims *)
JoinAll ==
  /\ phase = "join" /\ open \subseteq ran
  /\ open' = {}
  /\ borrowed' = {} /\ rclaims' = NoRes
  /\ IF stage = LastStage
     THEN phase' = "done" /\ UNCHANGED <<stage, next>>
     ELSE /\ phase' = "fork" /\ stage' = stage + 1
          /\ next' = CHOOSE t \in 1..NT : Stage(t) = stage + 1 /\ \A u \in 1..NT : Stage(u) = stage + 1 => t <= u
  /\ UNCHANGED <<tasks, archs, ran, hasrun, cells, reads, coopen, early>>

Finished == phase = "done" /\ UNCHANGED vars

Next == ForkNext \/ AddOnNext \/ JoinAll \/ (\E t \in 1..NT : Exec(t)) \/ Finished
Spec == Init /\ [][Next]_vars /\ WF_vars(ForkNext \/ AddOnNext \/ JoinAll \/ (\E t \in 1..NT : Exec(t)))

-----------------------------------------------------------------------------
(* sequential reference: tasks one by one in declared order *)
RECURSIVE SeqCells(_, _)
SeqCells(t, cs) ==
  IF t > NT THEN cs
  ELSE SeqCells(t + 1, [x \in Cells |-> IF CellsOf(t)[x] = "mut" THEN Append(cs[x], t) ELSE cs[x]])
RECURSIVE SeqCellsUpTo(_, _, _)
SeqCellsUpTo(t, upto, cs) ==
  IF t >= upto THEN cs
  ELSE SeqCellsUpTo(t + 1, upto, [x \in Cells |-> IF CellsOf(t)[x] = "mut" THEN Append(cs[x], t) ELSE cs[x]])
Empty == [x \in Cells |-> <<>>]
SeqReads(t) == LET cs == SeqCellsUpTo(1, t, Empty) IN
               [x \in {x \in Cells : CellsOf(t)[x] # "none"} |-> cs[x]]

(* two tasks can touch the same data of a stored entity *)
Dyn(t, u) == \E x \in Cells : Conflict(CellsOf(t)[x], CellsOf(u)[x])

NoConflictingOverlap == \A t \in open : \A u \in open : t # u => ~Dyn(t, u)          \* C08
ExactlyOnce == phase = "done" => ran = 1..NT                                            \* C07
SeqEquivalent == phase = "done" =>                                                      \* C07
  /\ cells = SeqCells(1, Empty)
  /\ \A t \in 1..NT : reads[t] = SeqReads(t)
GreedyParallel == phase = "done" =>                                                     \* C12
  \A a \in 1..NT : \A b \in (a + 1)..NT :
     Stage(a) = Stage(b) => ({a, b} \in coopen \/ ((a \in early) # (b \in early)))
Termination == <>(phase = "done")                                                       \* C12
=============================================================================
