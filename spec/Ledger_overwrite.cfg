SPECIFICATION Spec
CONSTANTS
  NCols = 2
  MaxLen = 3
  MaxVal = 12
  RemoveLen = "shared"
  CloneFromImpl = "overwrite"
INVARIANTS ExactlyOnce NoLeak NoDangling NoAlias OneLength AbsentEmpty
CHECK_DEADLOCK FALSE
