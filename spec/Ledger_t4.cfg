SPECIFICATION Spec
CONSTANTS
  NCols = 2
  MaxLen = 4
  MaxVal = 24
  RemoveLen = "shared"
  CloneFromImpl = "vec"
INVARIANTS ExactlyOnce NoLeak NoDangling NoAlias OneLength AbsentEmpty
CHECK_DEADLOCK FALSE
