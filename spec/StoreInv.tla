----------------------------- MODULE StoreInv -----------------------------
(***************************************************************************)
(* Structural invariant of one world's store (allocator + archetype        *)
(* tables + lookup tables), as a set of named predicates over a *dump*     *)
(* value.  The same predicates are used by the model (MCWorld: the dump is *)
(* computed from the model state) and by trace validation (TraceWorld: the *)
(* dump is what the brood_verif hook read out of the real World).          *)
(*                                                                         *)
(* Dump format (0-based indices exactly as in the Rust structures):        *)
(*   [len    |-> Nat,                                                      *)
(*    slots  |-> Seq([g: Nat, a: BOOLEAN, t: Int, r: Nat, id: ID]),        *)
(*    free   |-> Seq(Nat),                                                 *)
(*    tables |-> Seq([bits: Nat, len: Nat, ids: Seq(ID), idx: Seq(Nat),    *)
(*                    idcap: Nat, caps: Seq(Nat)]),                        *)
(*    tl     |-> Seq(Int),          type-id lookup: value table            *)
(*    fl     |-> Seq(<<Int, Int>>)] bytes lookup: key table, value table   *)
(* This is the property-level ("loose") reading: nothing here depends on   *)
(* which free slot is reused first, on row order inside a table, on table  *)
(* order, or on when tables are created or erased.                         *)
(***************************************************************************)
EXTENDS Naturals, Integers, Sequences, FiniteSets

LOCAL Range(s) == {s[i] : i \in DOMAIN s}

RECURSIVE PopCount(_)
PopCount(n) == IF n = 0 THEN 0 ELSE (n % 2) + PopCount(n \div 2)

RECURSIVE SumSeq(_)
SumSeq(s) == IF s = <<>> THEN 0 ELSE Head(s) + SumSeq(Tail(s))

NSlots(d)  == Len(d.slots)
NTables(d) == Len(d.tables)
Slot(d, i) == d.slots[i + 1]            \* 0-based
Table(d, t) == d.tables[t + 1]          \* 0-based
Inactive(d) == {i \in 0..(NSlots(d) - 1) : ~Slot(d, i).a}
Active(d)   == {i \in 0..(NSlots(d) - 1) : Slot(d, i).a}

(* 1. free list = inactive slots, no duplicates: no released identifier is lost or doubled *)
FreeNoDup(d)   == Cardinality(Range(d.free)) = Len(d.free)
FreeExact(d)   == Range(d.free) = Inactive(d)

(* 2. slot <-> row bijection *)
SlotToRow(d) ==
  \A i \in Active(d) :
     LET s == Slot(d, i) IN
       /\ s.t \in 0..(NTables(d) - 1)
       /\ s.r < Table(d, s.t).len
       /\ s.r < Len(Table(d, s.t).ids)
       /\ Table(d, s.t).ids[s.r + 1] = s.id
RowToSlot(d) ==
  \A t \in 0..(NTables(d) - 1) :
     \A r \in 0..(Len(Table(d, t).ids) - 1) :
        LET id == Table(d, t).ids[r + 1]
            i == Table(d, t).idx[r + 1] IN
          /\ i < NSlots(d)
          /\ Slot(d, i).a
          /\ Slot(d, i).id = id
          /\ Slot(d, i).t = t
          /\ Slot(d, i).r = r

(* 3. lengths agree *)
TableLens(d)  == \A t \in 0..(NTables(d) - 1) : Len(Table(d, t).ids) = Table(d, t).len
LenIsRows(d)  == d.len = SumSeq([t \in 1..NTables(d) |-> d.tables[t].len])
LenIsActive(d) == d.len = Cardinality(Active(d))
ColumnCount(d) == \A t \in 0..(NTables(d) - 1) :
                     Len(Table(d, t).caps) = PopCount(Table(d, t).bits)
Capacities(d) == \A t \in 0..(NTables(d) - 1) :
                     /\ Table(d, t).idcap >= Table(d, t).len
                     /\ \A k \in DOMAIN Table(d, t).caps : Table(d, t).caps[k] >= Table(d, t).len

(* (model dumps only) every column of a table has the table's length *)
ColumnLens(d) == \A t \in 0..(NTables(d) - 1) :
                    "collens" \in DOMAIN Table(d, t) => Table(d, t).collens \subseteq {Table(d, t).len}

(* 4. one table per component set *)
OneTablePerSet(d) ==
  \A t1, t2 \in 1..NTables(d) : t1 # t2 => d.tables[t1].bits # d.tables[t2].bits

(* 5. lookup tables only reference existing tables, and every table can be found by its bytes *)
LookupTargets(d) ==
  /\ \A k \in DOMAIN d.tl : d.tl[k] \in 0..(NTables(d) - 1)
  /\ \A k \in DOMAIN d.fl : /\ d.fl[k][2] \in 0..(NTables(d) - 1)
                             /\ d.fl[k][1] = d.fl[k][2]
LookupCovers(d) ==
  \A t \in 0..(NTables(d) - 1) : \E k \in DOMAIN d.fl : d.fl[k][2] = t

(* the set of identifiers attached to stored rows *)
StoredIds(d) == UNION {Range(d.tables[t].ids) : t \in 1..NTables(d)}
(* the identifiers the allocator accepts *)
AcceptedIds(d) == {Slot(d, i).id : i \in Active(d)}
(* component-set bits of the table holding a stored identifier *)
BitsOf(d, id) == (CHOOSE t \in 1..NTables(d) : id \in Range(d.tables[t].ids))

Checks(d) ==
  << <<"free-no-dup",      FreeNoDup(d)>>,
     <<"free-exact",       FreeExact(d)>>,
     <<"slot-to-row",      SlotToRow(d)>>,
     <<"row-to-slot",      RowToSlot(d)>>,
     <<"table-lens",       TableLens(d)>>,
     <<"len-is-rows",      LenIsRows(d)>>,
     <<"len-is-active",    LenIsActive(d)>>,
     <<"column-count",     ColumnCount(d)>>,
     <<"capacities",       Capacities(d)>>,
     <<"column-lens",      ColumnLens(d)>>,
     <<"one-table-per-set", OneTablePerSet(d)>>,
     <<"lookup-targets",   LookupTargets(d)>>,
     <<"lookup-covers",    LookupCovers(d)>> >>

StoreInvHolds(d) ==
  /\ FreeNoDup(d) /\ FreeExact(d) /\ SlotToRow(d) /\ RowToSlot(d) /\ TableLens(d)
  /\ LenIsRows(d) /\ LenIsActive(d) /\ ColumnCount(d) /\ Capacities(d) /\ ColumnLens(d)
  /\ OneTablePerSet(d) /\ LookupTargets(d) /\ LookupCovers(d)
=============================================================================
