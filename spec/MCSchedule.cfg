SPECIFICATION Spec
CONSTANTS
  Kinds <- MCKinds
  AllArchs <- MCArchs
  MaxTasks = 3
  DupKeys = FALSE
INVARIANTS NoConflictingOverlap ExactlyOnce SeqEquivalent GreedyParallel
PROPERTY Termination
CHECK_DEADLOCK TRUE
