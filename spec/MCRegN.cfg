SPECIFICATION Spec
CONSTANT MaxN = 17
INVARIANT Inv_Encode
INVARIANT Inv_Padding
INVARIANT Inv_Injective
INVARIANT Inv_Prefixes
CHECK_DEADLOCK FALSE
