SPECIFICATION Spec
CONSTANTS
  NCol = 3
  NRow = 3
  SRow = 4
  Ops = {"clone_from"}
  Guarded = FALSE
INVARIANT NoFreedBufferUsed
CHECK_DEADLOCK FALSE
