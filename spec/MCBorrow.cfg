SPECIFICATION Spec
INVARIANT Inv
