------------------------------ MODULE MCBorrow ------------------------------
EXTENDS Borrow
VARIABLE x
Init == x = 0 /\ Emit
Next == UNCHANGED x
Spec == Init /\ [][Next]_x
(* sanity of the labelling: every rejecting case has a control of the same family and api *)
Paired == \A c \in Cases : MustReject(c) => \E d \in Cases : d.fam = c.fam /\ d.api = c.api /\ MustCompile(d)
Disjoint == \A c \in Cases : ~(MustReject(c) /\ MustCompile(c))
Inv == Paired /\ Disjoint
=============================================================================
