------------------------------ MODULE ParSplit ------------------------------
(***************************************************************************)
(* Split algebra of a parallel query over one archetype table (C09).        *)
(* src/registry/sealed/par_view.rs builds, per viewed component, an indexed  *)
(* rayon producer over the column: a shared slice, a mutable slice, or       *)
(* RepeatNone(count) for an optional view of a component the table lacks     *)
(* (src/query/view/par/seal/repeat.rs); the producers are zipped.  rayon      *)
(* splits the zip at some index (split_at on every component producer) any    *)
(* number of times and folds each leaf sequentially.  The zip of a leaf       *)
(* yields as many rows as its shortest component.                             *)
(*                                                                         *)
(* Invariant: whatever the split tree, every row of the table is yielded     *)
(* exactly once (so the multiset of results equals the sequential query and  *)
(* no row is handed out mutably twice).                                      *)
(* RepeatRight = "count-index" is the producer as coded; "index" is the      *)
(* seeded change m1-C09 (kept as a self-test: TLC must find the lost row).   *)
(***************************************************************************)
EXTENDS Naturals, Sequences, FiniteSets, TLC

CONSTANTS NRows,          \* rows in the table
          ColKinds,       \* sequence of producer kinds: "slice" | "slice_mut" | "repeat"
          RepeatRight     \* "count-index" | "index"

NC == Len(ColKinds)
(* a component producer: [kind, lo, len] ; a piece: one producer per column *)
Whole == [c \in 1..NC |-> [kind |-> ColKinds[c], lo |-> 0, len |-> NRows]]
Min(S) == CHOOSE x \in S : \A y \in S : x <= y
PieceLen(p) == Min({p[c].len : c \in 1..NC})

SplitProducer(x, i) ==
  IF x.kind = "repeat"
  THEN << [x EXCEPT !.len = i],
          [x EXCEPT !.len = IF RepeatRight = "index" THEN i ELSE x.len - i] >>
  ELSE << [x EXCEPT !.len = i], [x EXCEPT !.lo = x.lo + i, !.len = x.len - i] >>

VARIABLES pieces, visited
vars == <<pieces, visited>>
Init == pieces = <<Whole>> /\ visited = [r \in 0..(NRows - 1) |-> 0]

Split(k, i) ==
  /\ pieces' = [j \in 1..(Len(pieces) + 1) |->
                  IF j < k THEN pieces[j]
                  ELSE IF j = k THEN [c \in 1..NC |-> SplitProducer(pieces[k][c], i)[1]]
                  ELSE IF j = k + 1 THEN [c \in 1..NC |-> SplitProducer(pieces[k][c], i)[2]]
                  ELSE pieces[j - 1]]
  /\ UNCHANGED visited

(* fold a leaf: the zip yields PieceLen rows; the row a slice producer yields is lo + offset; all
   slice producers of one piece agree on lo by construction, repeat producers carry no row *)
RowBase(p) == IF \E c \in 1..NC : p[c].kind # "repeat"
              THEN p[CHOOSE c \in 1..NC : p[c].kind # "repeat"].lo ELSE 0
Yield(k) ==
  LET p == pieces[k]
      rows == {RowBase(p) + o : o \in 0..(PieceLen(p) - 1)} IN
  /\ visited' = [r \in DOMAIN visited |-> IF r \in rows THEN visited[r] + 1 ELSE visited[r]]
  /\ pieces' = [j \in 1..(Len(pieces) - 1) |-> IF j < k THEN pieces[j] ELSE pieces[j + 1]]

Next == \/ \E k \in DOMAIN pieces : \E i \in 1..(PieceLen(pieces[k]) - 1) : Split(k, i)
        \/ \E k \in DOMAIN pieces : Yield(k)
        \/ (pieces = <<>> /\ UNCHANGED vars)
Spec == Init /\ [][Next]_vars

(* tables made only of absent optional components have no row identity in this model: skip them *)
HasSlice == \E c \in 1..NC : ColKinds[c] # "repeat"
EveryRowOnce == (pieces = <<>> /\ HasSlice) => \A r \in DOMAIN visited : visited[r] = 1
NeverTwice == HasSlice => \A r \in DOMAIN visited : visited[r] <= 1
SlicesAgree == \A k \in DOMAIN pieces : \A c, d \in 1..NC :
                  (pieces[k][c].kind # "repeat" /\ pieces[k][d].kind # "repeat") =>
                     (pieces[k][c].lo = pieces[k][d].lo /\ pieces[k][c].len = pieces[k][d].len)
=============================================================================
