SPECIFICATION Spec
CONSTANTS
  NComp = 2
  NWorlds = 1
  MaxCreate = 3
  MaxBatch = 2
INVARIANTS Inv_RoundTrip Inv_C11
CHECK_DEADLOCK FALSE
