------------------------------ MODULE Precond ------------------------------
(***************************************************************************)
(* Run-time safety preconditions enforced at the safe API boundary (C18).   *)
(* Construct(ctor, registry) is enabled iff the registry lists no type      *)
(* twice; BatchNew(lens) is enabled iff all column lengths are equal.  A    *)
(* disabled action must be observed as a panic, an enabled one as a return. *)
(* The module also defines the finite space the property quantifies over,   *)
(* so that trace validation can check the enumeration is complete.          *)
(***************************************************************************)
EXTENDS Naturals, Sequences, FiniteSets

Ctors == {"new", "with_resources", "default", "deserialize_hr", "deserialize_compact"}
HasDuplicate(reg) == \E i, j \in DOMAIN reg : i < j /\ reg[i] = reg[j]
ConstructEnabled(reg) == ~HasDuplicate(reg)
BatchEnabled(lens) == \A i, j \in DOMAIN lens : lens[i] = lens[j]

(* registries of length n with types 0..n-1 except that position j repeats position i *)
DupReg(n, i, j) == [k \in 1..n |-> IF k = j THEN i - 1 ELSE k - 1]
ValidDup(n, i, j) == i < j /\ j <= n
DupSpace == {DupReg(t[1], t[2], t[3]) : t \in {u \in (2..9) \X (1..9) \X (1..9) : ValidDup(u[1], u[2], u[3])}}
ControlSpace == {[k \in 1..n |-> k - 1] : n \in 0..9}
BatchSpace == UNION {[1..n -> 0..3] : n \in 1..4}
=============================================================================
