--------------------------- MODULE TracePrecond ---------------------------
(* Trace validation for C18: every constructor call / Batch::new call made by harness/preconddrv
   is accepted only with the outcome Precond allows; at the end the set of cases seen must be the
   whole space (exhaustive enumeration). *)
EXTENDS Precond, Integers, TLC, Json, IOUtils

Rec == ndJsonDeserialize(IOEnv.TRACE)
NRec == Len(Rec)
VARIABLES l, seenCtor, seenBatch
vars == <<l, seenCtor, seenBatch>>
E == Rec[l]
Chk(name, cond) == IF cond THEN TRUE ELSE PrintT(<<"FAIL", "C18", l, name, l>>)

OnCtor ==
  /\ Chk("world-obtained-for-registry-with-duplicate-component",
         HasDuplicate(E.reg) => E.outcome = "panicked")
  /\ Chk("constructor-refused-a-valid-registry", ~HasDuplicate(E.reg) => E.outcome = "returned")
  /\ seenCtor' = seenCtor \cup {<<E.reg, E.ctor>>}
  /\ UNCHANGED seenBatch
OnBatch ==
  /\ Chk("ragged-batch-accepted", ~BatchEnabled(E.lens) => E.outcome = "panicked")
  /\ Chk("ragged-columns-stored", ~BatchEnabled(E.lens) => (E.len = 0 /\ E.stored = 0))
  /\ Chk("valid-batch-refused", BatchEnabled(E.lens) => E.outcome = "returned")
  /\ Chk("batch-row-count", (BatchEnabled(E.lens) /\ E.outcome = "returned") =>
                               (E.rows = E.lens[1] /\ E.len = E.lens[1] /\ E.stored = E.lens[1]))
  /\ seenBatch' = seenBatch \cup {E.lens}
  /\ UNCHANGED seenCtor
(* `entities!((..); n)` with a count expression that has a side effect: E.lens is the count as it was
   evaluated for each column.  The batch is built in safe code, so its columns must be equal *)
OnMacro ==
  /\ Chk("ragged-batch-built-through-the-safe-macro", BatchEnabled(E.lens))
  /\ Chk("macro-batch-row-count", E.outcome = "returned" =>
                                     (E.rows = E.lens[1] /\ E.len = E.lens[1] /\ E.stored = E.lens[1]))
  /\ UNCHANGED <<seenCtor, seenBatch>>
Step == /\ l <= NRec /\ l' = l + 1
        /\ CASE E.ev = "ctor" -> OnCtor [] E.ev = "batch" -> OnBatch [] E.ev = "macro" -> OnMacro
Init == l = 1 /\ seenCtor = {} /\ seenBatch = {}
Spec == Init /\ [][Step]_vars
(* coverage: the whole space was enumerated (checked in the final state) *)
Complete ==
  l = NRec + 1 =>
     /\ Chk("enumeration-incomplete(constructors)", (DupSpace \cup ControlSpace) \X Ctors \subseteq seenCtor)
     /\ Chk("enumeration-incomplete(batches)", BatchSpace \subseteq seenBatch)
Done == /\ PrintT(<<"CONSUMED", TLCGet("stats").diameter - 1, NRec>>)
        /\ PrintT(<<"SPACE", Cardinality(DupSpace), Cardinality(ControlSpace), Cardinality(BatchSpace)>>)
        /\ TLCGet("stats").diameter - 1 = NRec
=============================================================================
