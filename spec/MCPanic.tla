------------------------------- MODULE MCPanic -------------------------------
(***************************************************************************)
(* Column-granular model of the per-column loops of brood's storage layer   *)
(* with a panic possible at every user call-back (C17).                     *)
(*                                                                         *)
(* One archetype table: NCol component columns x `length` rows of value     *)
(* tokens, the shared row count `length` (one counter for all columns, as   *)
(* in src/archetype/mod.rs), and the set of tokens whose Drop has run.      *)
(* Operations are transcribed at the granularity at which user code runs:   *)
(*   remove_component_row   for each column in order: Vec::swap_remove      *)
(*                          (the removed value is returned and dropped at   *)
(*                          once = one Drop call-back per column); the      *)
(*                          caller decrements `length` afterwards;          *)
(*   clear_components       for each column: Vec::clear (drops every        *)
(*                          element: one call-back per element; if one      *)
(*                          panics Vec still drops the remaining elements   *)
(*                          of THAT column); `length` is reset afterwards;  *)
(*   clone_from_components  for each column: truncate to the source length  *)
(*                          (drops), clone element-wise (one Clone          *)
(*                          call-back per element), the raw parts and the   *)
(*                          length are written back after the loop.         *)
(* A Panic action is enabled at every call-back.  After a panic the         *)
(* operation is abandoned exactly where it was (unwinding runs no library   *)
(* code that repairs the table), and later the table is dropped: every      *)
(* column drops `length` elements.                                          *)
(*                                                                         *)
(* PanicSafe: no token is dropped twice and no dropped token is reachable.  *)
(* Guarded = FALSE is the code as pinned: TLC finds the double drops that    *)
(* the fault-injection traces (TracePanic) find in the real code (known      *)
(* findings of C17).  Guarded = TRUE is the repaired design (values are      *)
(* moved out of all columns and the length is updated BEFORE any Drop runs;  *)
(* for clone_from the destination is detached first): the invariant holds.   *)
(***************************************************************************)
EXTENDS Naturals, Sequences, FiniteSets, TLC

CONSTANTS NCol, NRow, Guarded,
          SRow,         \* clone_from: rows of the source table (smaller or larger than NRow)
          Ops           \* the operations explored

Cols == 1..NCol
Tok(c, r) == <<c, r>>                       \* initial value of column c, row r
VARIABLES cells,      \* cells[c]: sequence of tokens physically present in column c (may be longer than length)
          length,     \* shared row count
          dropped,    \* set of tokens whose Drop has run
          twice,      \* tokens dropped more than once (history)
          op, col, idx, pc,   \* running operation, current column, row operand, phase
          held,       \* Guarded: values moved out and not yet dropped
          phase, olen, \* clone_from: step within the current column; the length the loop works with
          stale,      \* columns whose recorded (pointer, capacity) name a buffer that was reallocated
          uaf,        \* history: a freed buffer was used
          cloned      \* clone_from has been started once (its clones carry fixed token names)
vars == <<cells, length, dropped, twice, op, col, idx, pc, held, phase, olen, stale, uaf, cloned>>

Init == /\ cells = [c \in Cols |-> [r \in 1..NRow |-> Tok(c, r)]]
        /\ length = NRow /\ dropped = {} /\ twice = {}
        /\ op = "idle" /\ col = 1 /\ idx = 1 /\ pc = "go" /\ held = <<>>
        /\ phase = "trunc" /\ olen = NRow /\ stale = {} /\ uaf = FALSE /\ cloned = FALSE

Drop(t) == /\ twice' = IF t \in dropped THEN twice \cup {t} ELSE twice
           /\ dropped' = dropped \cup {t}

SwapRemoved(s, i) == IF i = Len(s) THEN SubSeq(s, 1, Len(s) - 1)
                     ELSE [k \in 1..(Len(s) - 1) |-> IF k = i THEN s[Len(s)] ELSE s[k]]
(* what physically remains in memory after swap_remove: the hole holds the last element and the
   last slot still holds its bits (the Vec's own length is discarded, the shared `length` rules) *)
AfterSwap(s, i, n) == [k \in 1..Len(s) |-> IF k = i THEN s[n] ELSE s[k]]

Begin == /\ op = "idle" /\ pc = "go" /\ length > 0
         /\ \E o \in Ops \ (IF cloned THEN {"clone_from"} ELSE {}) : op' = o
         /\ \E i \in 1..length : idx' = i
         /\ col' = 1 /\ held' = <<>> /\ phase' = "trunc" /\ olen' = length
         /\ cloned' = (cloned \/ op' = "clone_from")
         /\ UNCHANGED <<cells, length, dropped, twice, pc, stale, uaf>>

(* ---- World::remove as coded: per column, swap_remove then Drop of the removed value ---------- *)
RemoveStep ==
  /\ op = "remove" /\ pc = "go" /\ ~Guarded /\ col <= NCol
  /\ LET removed == cells[col][idx] IN
     /\ cells' = [cells EXCEPT ![col] = AfterSwap(@, idx, length)]
     /\ \/ Drop(removed) /\ pc' = "go" /\ col' = col + 1            \* Drop returns
        \/ Drop(removed) /\ pc' = "panicked" /\ UNCHANGED col       \* Drop panics (the value counts as dropped)
  /\ UNCHANGED <<length, op, idx, held>>
  /\ UNCHANGED <<phase, olen, stale, uaf, cloned>>

RemoveFinish ==
  /\ op = "remove" /\ pc = "go" /\ ~Guarded /\ col > NCol
  /\ length' = length - 1 /\ op' = "idle"
  /\ UNCHANGED <<cells, dropped, twice, col, idx, pc, held>>
  /\ UNCHANGED <<phase, olen, stale, uaf, cloned>>

(* ---- repaired design: move the row out of every column, fix the length, then drop ------------ *)
GRemoveMove ==
  /\ op = "remove" /\ pc = "go" /\ Guarded /\ col <= NCol
  /\ held' = Append(held, cells[col][idx])
  /\ cells' = [cells EXCEPT ![col] = AfterSwap(@, idx, length)]
  /\ col' = col + 1
  /\ UNCHANGED <<length, dropped, twice, op, idx, pc>>
  /\ UNCHANGED <<phase, olen, stale, uaf, cloned>>

GRemoveCommit ==
  /\ op = "remove" /\ pc = "go" /\ Guarded /\ col = NCol + 1
  /\ length' = length - 1 /\ col' = NCol + 2
  /\ UNCHANGED <<cells, dropped, twice, op, idx, pc, held>>
  /\ UNCHANGED <<phase, olen, stale, uaf, cloned>>

GRemoveDrop ==
  /\ op = "remove" /\ Guarded /\ col = NCol + 2 /\ pc \in {"go", "unwinding"}
  /\ IF held = <<>> THEN /\ op' = "idle" /\ pc' = IF pc = "unwinding" THEN "panicked" ELSE "go"
                         /\ UNCHANGED <<dropped, twice, held>>
     ELSE /\ Drop(Head(held)) /\ held' = Tail(held) /\ UNCHANGED op
          /\ \/ UNCHANGED pc
             \/ pc = "go" /\ pc' = "unwinding"      \* a Drop panics: the remaining held values are still dropped by unwinding
  /\ UNCHANGED <<cells, length, col, idx>>
  /\ UNCHANGED <<phase, olen, stale, uaf, cloned>>

(* ---- World::clear as coded: per column Vec::clear, length reset afterwards -------------------- *)
ClearStep ==
  /\ op = "clear" /\ pc = "go" /\ ~Guarded /\ col <= NCol
  /\ LET toks == {cells[col][r] : r \in 1..length} IN
     /\ twice' = twice \cup (toks \cap dropped)
     /\ dropped' = dropped \cup toks
  /\ \/ pc' = "go" /\ col' = col + 1
     \/ pc' = "panicked" /\ UNCHANGED col      \* one of the Drops panicked; Vec dropped the rest of this column
  /\ UNCHANGED <<cells, length, op, idx, held>>
  /\ UNCHANGED <<phase, olen, stale, uaf, cloned>>

ClearFinish ==
  /\ op = "clear" /\ pc = "go" /\ col > NCol
  /\ length' = 0 /\ op' = "idle"
  /\ UNCHANGED <<cells, dropped, twice, col, idx, pc, held>>
  /\ UNCHANGED <<phase, olen, stale, uaf, cloned>>

GClear ==      \* repaired: the length is reset before any Drop runs
  /\ op = "clear" /\ pc = "go" /\ Guarded /\ col = 1
  /\ LET toks == UNION {{cells[c][r] : r \in 1..length} : c \in Cols} IN
     /\ twice' = twice \cup (toks \cap dropped)
     /\ dropped' = dropped \cup toks
  /\ length' = 0 /\ col' = NCol + 1
  /\ \/ UNCHANGED pc \/ pc' = "panicked"
  /\ UNCHANGED <<cells, op, idx, held>>
  /\ UNCHANGED <<phase, olen, stale, uaf, cloned>>

(* ---- after a panic (or at any idle moment) the table is dropped ------------------------------- *)
DropTable ==
  /\ (pc = "panicked" \/ op = "idle") /\ pc # "done"
  /\ LET toks == UNION {{cells[c][r] : r \in 1..length} : c \in Cols} IN
     /\ twice' = twice \cup (toks \cap dropped)
     /\ dropped' = dropped \cup toks
  /\ uaf' = (uaf \/ stale # {})          \* every column buffer is released through its recorded raw parts
  /\ length' = 0 /\ pc' = "done"
  /\ UNCHANGED <<cells, op, col, idx, held, phase, olen, stale, cloned>>

(* ---- World::clone_from on a table both worlds have: per column Vec::clone_from ------------------ *)
(* truncate to the source length (drops the tail; Vec's own length is set first), then element-wise  *)
(* clone_from on the common prefix (Clone call-back, then the old value is dropped and replaced),     *)
(* then reserve + clone the rest (the reserve may move the buffer: the recorded raw parts are stale    *)
(* until they are written back after the column), the shared length is written after all columns.     *)
(* Guarded: the table is detached first (length 0), raw parts are written back right after the reserve *)
Clone(c, r) == <<c, 100 + r>>
CFDetach ==
  /\ op = "clone_from" /\ pc = "go" /\ Guarded /\ col = 1 /\ phase = "trunc" /\ length > 0
  /\ length' = 0
  /\ UNCHANGED <<cells, dropped, twice, op, col, idx, pc, held, phase, olen, stale, uaf, cloned>>
CFReady == op = "clone_from" /\ pc = "go" /\ col <= NCol /\ (Guarded => length = 0)
CFTrunc ==
  /\ CFReady /\ phase = "trunc"
  /\ LET toks == {cells[col][r] : r \in (SRow + 1)..olen} IN
     /\ twice' = twice \cup (toks \cap dropped)
     /\ dropped' = dropped \cup toks
     /\ \/ pc' = "go" /\ phase' = "over" /\ idx' = 1
        \/ toks # {} /\ pc' = "panicked" /\ UNCHANGED <<phase, idx>>
  /\ UNCHANGED <<cells, length, op, col, held, olen, stale, uaf, cloned>>
CFOver ==
  /\ CFReady /\ phase = "over"
  /\ LET n == IF olen < SRow THEN olen ELSE SRow IN
     IF idx > n
     THEN \* common prefix done: reserve for the rest
          /\ phase' = "ext" /\ idx' = olen + 1
          /\ stale' = IF SRow > olen /\ ~Guarded THEN stale \cup {col} ELSE stale
          /\ UNCHANGED <<cells, dropped, twice, pc>>
     ELSE \/ pc' = "panicked" /\ UNCHANGED <<cells, dropped, twice, phase, idx, stale>>      \* Clone panics
          \/ /\ Drop(cells[col][idx])                                                           \* old value dropped,
             /\ cells' = [cells EXCEPT ![col][idx] = Clone(col, idx)]                           \* replaced (also on unwind)
             /\ \/ pc' = "go" /\ idx' = idx + 1
                \/ pc' = "panicked" /\ UNCHANGED idx
             /\ UNCHANGED <<phase, stale>>
  /\ UNCHANGED <<length, op, col, held, olen, uaf, cloned>>
CFExt ==
  /\ CFReady /\ phase = "ext"
  /\ IF idx > SRow
     THEN \* column done: raw parts written back
          /\ stale' = stale \ {col} /\ col' = col + 1 /\ phase' = "trunc"
          /\ UNCHANGED <<cells, pc, idx>>
     ELSE \/ pc' = "panicked" /\ UNCHANGED <<cells, idx, col, phase, stale>>                 \* Clone panics
          \/ /\ cells' = [cells EXCEPT ![col] = [k \in 1..idx |-> IF k < idx /\ k <= Len(@) THEN @[k] ELSE Clone(col, idx)]]
             /\ idx' = idx + 1 /\ UNCHANGED <<pc, col, phase, stale>>
  /\ UNCHANGED <<length, dropped, twice, op, held, olen, uaf, cloned>>
CFFinish ==
  /\ op = "clone_from" /\ pc = "go" /\ col > NCol
  /\ length' = SRow /\ op' = "idle"
  /\ UNCHANGED <<cells, dropped, twice, col, idx, pc, held, phase, olen, stale, uaf, cloned>>

Next == Begin \/ RemoveStep \/ RemoveFinish \/ GRemoveMove \/ GRemoveCommit \/ GRemoveDrop
        \/ ClearStep \/ ClearFinish \/ GClear \/ DropTable
        \/ CFDetach \/ CFTrunc \/ CFOver \/ CFExt \/ CFFinish \/ (pc = "done" /\ UNCHANGED vars)
Spec == Init /\ [][Next]_vars

Reachable == UNION {{cells[c][r] : r \in 1..length} : c \in Cols}
NoDoubleDrop == twice = {}
NoDroppedReachable == (op = "idle" \/ pc = "panicked") => (Reachable \cap dropped = {})
NoFreedBufferUsed == ~uaf
PanicSafe == NoDoubleDrop /\ NoDroppedReachable /\ NoFreedBufferUsed
=============================================================================
