------------------------------- MODULE MCPanic -------------------------------
(***************************************************************************)
(* Column-granular model of the per-column loops of brood's storage layer   *)
(* with a panic possible at every user call-back (C17).                     *)
(*                                                                         *)
(* One archetype table: NCol component columns x `length` rows of value     *)
(* tokens, the shared row count `length` (one counter for all columns, as   *)
(* in src/archetype/mod.rs), and the set of tokens whose Drop has run.      *)
(* Operations are transcribed at the granularity at which user code runs:   *)
(*   remove_component_row   for each column in order: Vec::swap_remove      *)
(*                          (the removed value is returned and dropped at   *)
(*                          once = one Drop call-back per column); the      *)
(*                          caller decrements `length` afterwards;          *)
(*   clear_components       for each column: Vec::clear (drops every        *)
(*                          element: one call-back per element; if one      *)
(*                          panics Vec still drops the remaining elements   *)
(*                          of THAT column); `length` is reset afterwards;  *)
(*   clone_from_components  for each column: truncate to the source length  *)
(*                          (drops), clone element-wise (one Clone          *)
(*                          call-back per element), the raw parts and the   *)
(*                          length are written back after the loop.         *)
(* A Panic action is enabled at every call-back.  After a panic the         *)
(* operation is abandoned exactly where it was (unwinding runs no library   *)
(* code that repairs the table), and later the table is dropped: every      *)
(* column drops `length` elements.                                          *)
(*                                                                         *)
(* PanicSafe: no token is dropped twice and no dropped token is reachable.  *)
(* Guarded = FALSE is the code as pinned: TLC finds the double drops that    *)
(* the fault-injection traces (TracePanic) find in the real code (known      *)
(* findings of C17).  Guarded = TRUE is the repaired design (values are      *)
(* moved out of all columns and the length is updated BEFORE any Drop runs;  *)
(* for clone_from the destination is detached first): the invariant holds.   *)
(***************************************************************************)
EXTENDS Naturals, Sequences, FiniteSets, TLC

CONSTANTS NCol, NRow, Guarded

Cols == 1..NCol
Tok(c, r) == <<c, r>>                       \* initial value of column c, row r
VARIABLES cells,      \* cells[c]: sequence of tokens physically present in column c (may be longer than length)
          length,     \* shared row count
          dropped,    \* set of tokens whose Drop has run
          twice,      \* tokens dropped more than once (history)
          op, col, idx, pc,   \* running operation, current column, row operand, phase
          held        \* Guarded: values moved out and not yet dropped
vars == <<cells, length, dropped, twice, op, col, idx, pc, held>>

Init == /\ cells = [c \in Cols |-> [r \in 1..NRow |-> Tok(c, r)]]
        /\ length = NRow /\ dropped = {} /\ twice = {}
        /\ op = "idle" /\ col = 1 /\ idx = 1 /\ pc = "go" /\ held = <<>>

Drop(t) == /\ twice' = IF t \in dropped THEN twice \cup {t} ELSE twice
           /\ dropped' = dropped \cup {t}

SwapRemoved(s, i) == IF i = Len(s) THEN SubSeq(s, 1, Len(s) - 1)
                     ELSE [k \in 1..(Len(s) - 1) |-> IF k = i THEN s[Len(s)] ELSE s[k]]
(* what physically remains in memory after swap_remove: the hole holds the last element and the
   last slot still holds its bits (the Vec's own length is discarded, the shared `length` rules) *)
AfterSwap(s, i, n) == [k \in 1..Len(s) |-> IF k = i THEN s[n] ELSE s[k]]

Begin == /\ op = "idle" /\ pc = "go" /\ length > 0
         /\ \E o \in {"remove", "clear"} : op' = o
         /\ \E i \in 1..length : idx' = i
         /\ col' = 1 /\ held' = <<>>
         /\ UNCHANGED <<cells, length, dropped, twice, pc>>

(* ---- World::remove as coded: per column, swap_remove then Drop of the removed value ---------- *)
RemoveStep ==
  /\ op = "remove" /\ pc = "go" /\ ~Guarded /\ col <= NCol
  /\ LET removed == cells[col][idx] IN
     /\ cells' = [cells EXCEPT ![col] = AfterSwap(@, idx, length)]
     /\ \/ Drop(removed) /\ pc' = "go" /\ col' = col + 1            \* Drop returns
        \/ Drop(removed) /\ pc' = "panicked" /\ UNCHANGED col       \* Drop panics (the value counts as dropped)
  /\ UNCHANGED <<length, op, idx, held>>
RemoveFinish ==
  /\ op = "remove" /\ pc = "go" /\ ~Guarded /\ col > NCol
  /\ length' = length - 1 /\ op' = "idle"
  /\ UNCHANGED <<cells, dropped, twice, col, idx, pc, held>>

(* ---- repaired design: move the row out of every column, fix the length, then drop ------------ *)
GRemoveMove ==
  /\ op = "remove" /\ pc = "go" /\ Guarded /\ col <= NCol
  /\ held' = Append(held, cells[col][idx])
  /\ cells' = [cells EXCEPT ![col] = AfterSwap(@, idx, length)]
  /\ col' = col + 1
  /\ UNCHANGED <<length, dropped, twice, op, idx, pc>>
GRemoveCommit ==
  /\ op = "remove" /\ pc = "go" /\ Guarded /\ col = NCol + 1
  /\ length' = length - 1 /\ col' = NCol + 2
  /\ UNCHANGED <<cells, dropped, twice, op, idx, pc, held>>
GRemoveDrop ==
  /\ op = "remove" /\ Guarded /\ col = NCol + 2 /\ pc \in {"go", "unwinding"}
  /\ IF held = <<>> THEN /\ op' = "idle" /\ pc' = IF pc = "unwinding" THEN "panicked" ELSE "go"
                         /\ UNCHANGED <<dropped, twice, held>>
     ELSE /\ Drop(Head(held)) /\ held' = Tail(held) /\ UNCHANGED op
          /\ \/ UNCHANGED pc
             \/ pc = "go" /\ pc' = "unwinding"      \* a Drop panics: the remaining held values are still dropped by unwinding
  /\ UNCHANGED <<cells, length, col, idx>>

(* ---- World::clear as coded: per column Vec::clear, length reset afterwards -------------------- *)
ClearStep ==
  /\ op = "clear" /\ pc = "go" /\ ~Guarded /\ col <= NCol
  /\ LET toks == {cells[col][r] : r \in 1..length} IN
     /\ twice' = twice \cup (toks \cap dropped)
     /\ dropped' = dropped \cup toks
  /\ \/ pc' = "go" /\ col' = col + 1
     \/ pc' = "panicked" /\ UNCHANGED col      \* one of the Drops panicked; Vec dropped the rest of this column
  /\ UNCHANGED <<cells, length, op, idx, held>>
ClearFinish ==
  /\ op = "clear" /\ pc = "go" /\ col > NCol
  /\ length' = 0 /\ op' = "idle"
  /\ UNCHANGED <<cells, dropped, twice, col, idx, pc, held>>
GClear ==      \* repaired: the length is reset before any Drop runs
  /\ op = "clear" /\ pc = "go" /\ Guarded /\ col = 1
  /\ LET toks == UNION {{cells[c][r] : r \in 1..length} : c \in Cols} IN
     /\ twice' = twice \cup (toks \cap dropped)
     /\ dropped' = dropped \cup toks
  /\ length' = 0 /\ col' = NCol + 1
  /\ \/ UNCHANGED pc \/ pc' = "panicked"
  /\ UNCHANGED <<cells, op, idx, held>>

(* ---- after a panic (or at any idle moment) the table is dropped ------------------------------- *)
DropTable ==
  /\ (pc = "panicked" \/ op = "idle") /\ pc # "done"
  /\ LET toks == UNION {{cells[c][r] : r \in 1..length} : c \in Cols} IN
     /\ twice' = twice \cup (toks \cap dropped)
     /\ dropped' = dropped \cup toks
  /\ length' = 0 /\ pc' = "done"
  /\ UNCHANGED <<cells, op, col, idx, held>>

Next == Begin \/ RemoveStep \/ RemoveFinish \/ GRemoveMove \/ GRemoveCommit \/ GRemoveDrop
        \/ ClearStep \/ ClearFinish \/ GClear \/ DropTable \/ (pc = "done" /\ UNCHANGED vars)
Spec == Init /\ [][Next]_vars

Reachable == UNION {{cells[c][r] : r \in 1..length} : c \in Cols}
NoDoubleDrop == twice = {}
NoDroppedReachable == (op = "idle" \/ pc = "panicked") => (Reachable \cap dropped = {})
PanicSafe == NoDoubleDrop /\ NoDroppedReachable
=============================================================================
