SPECIFICATION Spec
CONSTANTS
  NCol = 3
  NRow = 3
  Guarded = FALSE
INVARIANT PanicSafe
CHECK_DEADLOCK FALSE
