------------------------------ MODULE MCSerde ------------------------------
(* Design-level C11 / C06: on every reachable store of the bounded world model,                   *)
(*  - the encoding is accepted and decodes to the same store (up to the type-id lookup) (C06);    *)
(*  - every single mutation of the encoding that the deserializer accepts decodes to a store that *)
(*    satisfies the structural invariant: the checks the deserializer performs are sufficient      *)
(*    (C11).                                                                                       *)
EXTENDS MCWorld, Serde

ShapeOf(s) == [slots |-> s.slots, free |-> s.free, tl |-> s.tl, fl |-> s.fl, len |-> s.len,
               ids |-> [b \in DOMAIN s.tables |-> s.tables[b].ids]]
Wire(w) == Encode(ws[w], TableSeq(ws[w]))
Inv_RoundTrip == \A w \in WorldIds : live[w] =>
                    /\ Accepts(Wire(w))
                    /\ ShapeOf(Decode(Wire(w))) = ShapeOf(SerDeOf(ws[w]))
Inv_C11 == \A w \in WorldIds : live[w] =>
              \A m \in Mutations(Wire(w), 3) :
                 LET x == ApplyMut(Wire(w), m) IN
                 Accepts(x) => StoreInvHolds(DumpOf(Decode(x)))
(* two coordinated mutations: a row takes another index / generation, and the allocator section is
   adjusted (declared length, free list) - the shape of a forged input that keeps every slot
   accounted for *)
PairMutations(w, maxv) ==
  LET first == {Mu(k, a, r, v, 0) : k \in {"row_index", "row_dup"}, a \in 1..Len(w.archs), r \in 1..3, v \in 0..maxv}
      second == {Mu("alloc_len", 0, 0, v, 0) : v \in 0..maxv}
                \cup {Mu("free_push", 0, 0, v, g) : v \in 0..maxv, g \in 0..1}
                \cup {Mu("free_del", 0, r, 0, 0) : r \in 1..3}
                \cup {Mu("arch_len", a, 0, v, 0) : a \in 1..Len(w.archs), v \in 0..maxv} IN
  {<<m1, m2>> : m1 \in first, m2 \in second}
Inv_C11_Pairs == \A w \in WorldIds : live[w] =>
                   \A ms \in PairMutations(Wire(w), 3) :
                      LET x == ApplyMuts(Wire(w), ms) IN
                      Accepts(x) => StoreInvHolds(DumpOf(Decode(x)))
=============================================================================
