SPECIFICATION Spec
CONSTANTS
  NComp = 3
  NWorlds = 1
  MaxCreate = 3
  MaxBatch = 2
INVARIANTS Inv_C13 Inv_C01 Inv_C02 Inv_C06
CHECK_DEADLOCK FALSE
