SPECIFICATION Spec
CONSTANTS
  NCols = 2
  MaxLen = 3
  MaxVal = 20
  RemoveLen = "shared"
  CloneFromImpl = "vec"
INVARIANTS ExactlyOnce NoLeak NoDangling NoAlias OneLength AbsentEmpty
CHECK_DEADLOCK FALSE
