--------------------------- MODULE TraceSchedule ---------------------------
(***************************************************************************)
(* Trace validation of run_schedule executions (C07, C08, C12).             *)
(* A trace is a concatenation of runs; each run is                          *)
(*   {"ev":"sched", tasks (descriptors), archs, ...}                        *)
(*   fork n / task_begin t / task_end t / join n   (from the fork/join shim) *)
(*   {"ev":"end", final, seq, log, seqlog}                                   *)
(* Verdicts are structural: a fork of task t while task u is forked and not  *)
(* yet joined means t and u may overlap in time, whatever happened in this   *)
(* particular run.  The rule checked is the LOOSE one: any scheduler is      *)
(* accepted that (C08) never lets conflicting tasks overlap, (C07) runs      *)
(* conflicting tasks in declared order, every task exactly once, with the    *)
(* final state of the sequential run, and (C12) lets the members of a greedy *)
(* group overlap.                                                            *)
(***************************************************************************)
EXTENDS Naturals, Integers, Sequences, FiniteSets, TLC, Json, IOUtils, Access

Rec == ndJsonDeserialize(IOEnv.TRACE)
NRec == Len(Rec)

VARIABLES l, cur, open, started, done, coopen, early
vars == <<l, cur, open, started, done, coopen, early>>

E == Rec[l]
Hdr == Rec[cur]
Chk(prop, name, cond) == IF cond THEN TRUE ELSE PrintT(<<"FAIL", prop, l, name, cur>>)

CompSeq == <<"S", "W", "H">>
RECURSIVE BitSet(_, _)
BitSet(bits, k) == IF k > 3 THEN {}
                   ELSE (IF bits % 2 = 1 THEN {CompSeq[k]} ELSE {}) \cup BitSet(bits \div 2, k + 1)
Archs == {BitSet(Hdr.archs[k], 1) : k \in DOMAIN Hdr.archs}
Tasks == Hdr.tasks
NT == Len(Tasks)
Dyn(t, u) == DynConflict(Tasks[t], Tasks[u], Archs)

OnSched ==
  /\ cur' = l /\ open' = {} /\ started' = {} /\ done' = {} /\ coopen' = {} /\ early' = {}

(* a task that is executed without a fork of its own (node 0: run inline by the scheduler) is a
   fork immediately followed by the task and its join *)
ForkChecks(t) ==
  /\ Chk("C08", "conflicting-tasks-may-overlap", \A u \in open : ~Dyn(t, u))
  /\ Chk("C07", "started-before-conflicting-predecessor-finished",
         \A u \in 1..(t - 1) : Dyn(u, t) => u \in done)
  \* resources: a task that reads or writes a resource never overlaps a task writing it, and sees
  \* the writes of every earlier task (C15 under scheduling)
  /\ Chk("C15", "resource-access-overlaps-a-conflicting-one", \A u \in open : ~ResConflict(Tasks[t], Tasks[u]))
  /\ Chk("C15", "resource-access-started-before-conflicting-predecessor-finished",
         \A u \in 1..(t - 1) : ResConflict(Tasks[u], Tasks[t]) => u \in done)
  /\ Chk("C07", "started-after-conflicting-successor",
         \A u \in (t + 1)..NT : Dyn(u, t) => u \notin (started \cup open))
(* a fork inside which no task began (t = 0: a join branch that runs nothing) changes nothing *)
OnFork ==
  LET t == E.t IN
  IF t = 0 THEN UNCHANGED <<cur, open, started, done, coopen, early>> ELSE
  /\ ForkChecks(t)
  /\ open' = open \cup {t}
  /\ coopen' = coopen \cup {{t, u} : u \in open}
  /\ early' = IF \E u \in open : StageOf(Tasks, u) < StageOf(Tasks, t) THEN early \cup {t} ELSE early
  /\ UNCHANGED <<cur, started, done>>

OnBegin ==
  /\ Chk("C07", "task-ran-twice", E.t \notin started)
  /\ started' = started \cup {E.t}
  /\ IF E.n = 0
     THEN /\ Chk("HARNESS", "inline-task-also-forked", E.t \notin open)
          /\ ForkChecks(E.t)
          /\ coopen' = coopen \cup {{E.t, u} : u \in open}
          /\ early' = IF \E u \in open : StageOf(Tasks, u) < StageOf(Tasks, E.t) THEN early \cup {E.t} ELSE early
     ELSE /\ Chk("HARNESS", "task-began-outside-its-fork", E.t \in open)
          /\ UNCHANGED <<coopen, early>>
  /\ UNCHANGED <<cur, open, done>>

OnEnd ==
  /\ done' = done \cup {E.t}
  /\ UNCHANGED <<cur, open, started, coopen, early>>

OnJoin ==
  IF E.t = 0 THEN UNCHANGED <<cur, open, started, done, coopen, early>> ELSE
  /\ Chk("C07", "join-returned-before-task-finished", E.t \in done)
  /\ open' = open \ {E.t}
  /\ UNCHANGED <<cur, started, done, coopen, early>>

OnFinal ==
  /\ Chk("C07", "task-not-run-exactly-once", started = 1..NT /\ done = 1..NT)
  /\ Chk("C07", "final-state-differs-from-sequential-run", E.final = E.seq)
  /\ Chk("C07", "task-observations-differ-from-sequential-run", E.log = E.seqlog)
  /\ Chk("C15", "resources-after-schedule-differ-from-sequential-run", E.final.res = E.seq.res)
  /\ Chk("C12", "independent-adjacent-tasks-serialised",
         \A a \in 1..NT : \A b \in (a + 1)..NT :
            StageOf(Tasks, a) = StageOf(Tasks, b) =>
               \* members of one greedy group overlap; excused only when exactly one of them was
               \* started early (with the previous stage) and the other had to wait for that stage.
               \* Two members that were both started early must overlap like any other pair.
               ({a, b} \in coopen \/ ((a \in early) # (b \in early))))
  /\ Chk("HARNESS", "fork-still-open-at-end", open = {})
  /\ UNCHANGED <<cur, open, started, done, coopen, early>>

Step ==
  /\ l <= NRec
  /\ l' = l + 1
  /\ CASE E.ev = "sched" -> OnSched
       [] E.ev = "fork" -> OnFork
       [] E.ev = "task_begin" -> OnBegin
       [] E.ev = "task_end" -> OnEnd
       [] E.ev = "join" -> OnJoin
       [] E.ev = "end" -> OnFinal
       [] OTHER -> Chk("HARNESS", "unknown-event", FALSE) /\ UNCHANGED <<cur, open, started, done, coopen, early>>

Init == l = 1 /\ cur = 1 /\ open = {} /\ started = {} /\ done = {} /\ coopen = {} /\ early = {}
Spec == Init /\ [][Step]_vars
Done == /\ PrintT(<<"CONSUMED", TLCGet("stats").diameter - 1, NRec>>)
        /\ TLCGet("stats").diameter - 1 = NRec
=============================================================================
