------------------------------- MODULE MCRegN -------------------------------
(* RegN.tla for every registry size 1..MaxN: the wire form of every valid identifier is accepted
   (C06), every input with a padding bit set is refused (C11), the wire form is injective, and
   building a component set lowest-component-first only passes through subsets of it. *)
EXTENDS RegN, TLC
CONSTANT MaxN
VARIABLE n
Init == n = 1
Next == n < MaxN /\ n' = n + 1
Spec == Init /\ [][Next]_n
Ids == 0..(2^n - 1)
Inv_Encode == EncodeAccepted(n)
Inv_Padding ==
  n % 8 # 0 => \A m \in Ids : \A p \in (n % 8)..7 :
                  ~WireAccepts([IdBytes(m, n) EXCEPT ![NBytes(n)] = @ + 2^p], n)
Inv_Injective == n <= 10 => \A a, b \in Ids : IdBytes(a, n) = IdBytes(b, n) => a = b
Inv_Prefixes == n <= 10 => \A m \in Ids : \A q \in Prefixes(m, n) : \A c \in 0..(n - 1) : Bit(q, c) => Bit(m, c)
=============================================================================
