-------------------------------- MODULE Ledger --------------------------------
(***************************************************************************)
(* Drop ledger of the table operations that do NOT change an entity's shape  *)
(* (C04; the shape changes are spec/Reshape.tla, panics are spec/MCPanic.tla)*)
(*                                                                         *)
(* A table (src/archetype/mod.rs) is a set of type-erased columns that share *)
(* ONE length.  Every operation rebuilds each column's Vec<C> from its raw   *)
(* parts with that shared length, works on it column by column, and only     *)
(* then updates the length:                                                 *)
(*   Push        Archetype::push           one fresh value per column        *)
(*   RemoveRow   remove_row_unchecked      Vec::swap_remove(i) per column    *)
(*   Clear       clear / clear_detached    Vec::clear per column             *)
(*   CloneInto   Clone::clone / clone_from Vec::clone / Vec::clone_from      *)
(*   DropTable   impl Drop for Archetype   drop(Vec) per column              *)
(* Values are identified individually (as the harness's ledger does), the    *)
(* model keeps `dropped[v]` = number of times v's Drop ran.                  *)
(*   ExactlyOnce  no value is dropped twice                                  *)
(*   NoLeak       a value that was created and not dropped is in a cell      *)
(*   NoDangling   no cell holds a dropped value                              *)
(*   NoAlias      no value is in two cells                                   *)
(* RemoveLen = "shared" is the code: every column is rebuilt with the same   *)
(* length and the length is decremented after the loop.  "stale" decrements  *)
(* it inside the loop (the second column is rebuilt one short) and is kept   *)
(* as a self-test that must violate an invariant.  CloneFromImpl = "vec" is  *)
(* the code (Vec::clone_from drops what it overwrites); "overwrite" writes   *)
(* the clones over the old cells without dropping them (self-test: NoLeak).  *)
(***************************************************************************)
EXTENDS Naturals, Sequences, FiniteSets, TLC

CONSTANTS NCols, MaxLen, MaxVal, RemoveLen, CloneFromImpl
Tables == {1, 2}
Cols == 1..NCols

VARIABLES present,   \* [Tables -> BOOLEAN]
          col,       \* [Tables -> [Cols -> Seq(value id)]]  the visible cells (indices < shared length)
          dropped,   \* [1..MaxVal -> Nat]
          next       \* next fresh value id
vars == <<present, col, dropped, next>>

Rows(t) == Len(col[t][1])
Empty == [c \in Cols |-> <<>>]
Init == /\ present = [t \in Tables |-> FALSE]
        /\ col = [t \in Tables |-> Empty]
        /\ dropped = [v \in 1..MaxVal |-> 0]
        /\ next = 1

DropAll(S) == [v \in 1..MaxVal |-> IF v \in S THEN dropped[v] + 1 ELSE dropped[v]]
Range(s) == {s[i] : i \in 1..Len(s)}
CellsOf(t) == UNION {Range(col[t][c]) : c \in Cols}

New(t) == ~present[t] /\ present' = [present EXCEPT ![t] = TRUE]
          /\ col' = [col EXCEPT ![t] = Empty] /\ UNCHANGED <<dropped, next>>

(* one fresh value per column, ids next .. next+NCols-1 *)
Push(t) ==
  /\ present[t] /\ Rows(t) < MaxLen /\ next + NCols - 1 <= MaxVal
  /\ col' = [col EXCEPT ![t] = [c \in Cols |-> Append(col[t][c], next + c - 1)]]
  /\ next' = next + NCols /\ UNCHANGED <<present, dropped>>

(* Vec::swap_remove(i) on a Vec rebuilt with length n over the cells s (Len(s) >= n); the table's
   length afterwards is Len(s) - 1, so the visible cells are the first Len(s) - 1 of the memory *)
SwapRemoveCells(s, n, i) ==
  IF i > n THEN s                                   \* (would be an index panic; not reached by "shared")
  ELSE [s EXCEPT ![i] = s[n]]                       \* last of the rebuilt Vec moves into the hole
SwapRemoved(s, n, i) == IF i > n THEN {} ELSE {s[i]}
RemoveRow(t, i) ==
  /\ present[t] /\ i \in 1..Rows(t)
  /\ LET n(c) == IF RemoveLen = "stale" /\ c > 1 THEN Rows(t) - 1 ELSE Rows(t)
         mem(c) == IF n(c) = 0 THEN col[t][c] ELSE SwapRemoveCells(col[t][c], n(c), i)
         gone == UNION {IF n(c) = 0 THEN {} ELSE SwapRemoved(col[t][c], n(c), i) : c \in Cols} IN
     /\ col' = [col EXCEPT ![t] = [c \in Cols |-> SubSeq(mem(c), 1, Rows(t) - 1)]]
     /\ dropped' = DropAll(gone)
  /\ UNCHANGED <<present, next>>

Clear(t) ==
  /\ present[t] /\ Rows(t) > 0
  /\ dropped' = DropAll(CellsOf(t))
  /\ col' = [col EXCEPT ![t] = Empty] /\ UNCHANGED <<present, next>>

(* Clone::clone (t absent) or Clone::clone_from (t present) from s: every cell of the result is a
   fresh clone; Vec::clone_from truncates (dropping the tail), assigns clones over the common prefix
   (dropping what was there) and extends with clones *)
CloneInto(t, s) ==
  /\ t # s /\ present[s]
  /\ next + NCols * Rows(s) - 1 <= MaxVal
  /\ col' = [col EXCEPT ![t] = [c \in Cols |-> [k \in 1..Rows(s) |-> next + (c - 1) * Rows(s) + k - 1]]]
  /\ next' = next + NCols * Rows(s)
  /\ present' = [present EXCEPT ![t] = TRUE]
  /\ dropped' = IF ~present[t] THEN dropped
                ELSE IF CloneFromImpl = "vec" THEN DropAll(CellsOf(t))
                ELSE \* "overwrite": only the truncated tail is dropped
                     DropAll(UNION {{col[t][c][k] : k \in (Rows(s) + 1)..Rows(t)} : c \in Cols})

DropTable(t) ==
  /\ present[t]
  /\ dropped' = DropAll(CellsOf(t))
  /\ col' = [col EXCEPT ![t] = Empty]
  /\ present' = [present EXCEPT ![t] = FALSE] /\ UNCHANGED next

Next == \E t \in Tables :
          \/ New(t) \/ Push(t) \/ Clear(t) \/ DropTable(t)
          \/ \E i \in 1..MaxLen : RemoveRow(t, i)
          \/ \E s \in Tables : CloneInto(t, s)
Spec == Init /\ [][Next]_vars

Visible == UNION {CellsOf(t) : t \in Tables}
ExactlyOnce == \A v \in 1..MaxVal : dropped[v] <= 1
NoLeak == \A v \in 1..MaxVal : (v < next /\ dropped[v] = 0) => v \in Visible
NoDangling == \A v \in Visible : dropped[v] = 0
NoAlias == \A t1, t2 \in Tables, c1, c2 \in Cols :
             \A k1 \in 1..Rows(t1), k2 \in 1..Rows(t2) :
               col[t1][c1][k1] = col[t2][c2][k2] => <<t1, c1, k1>> = <<t2, c2, k2>>
OneLength == \A t \in Tables, c \in Cols : Len(col[t][c]) = Rows(t)
AbsentEmpty == \A t \in Tables : ~present[t] => Rows(t) = 0
=============================================================================
