------------------------------- MODULE Reshape -------------------------------
(***************************************************************************)
(* Entry::add (of a component the entity lacks) and Entry::remove: moving    *)
(* one row from its table to the table of the neighbouring component set     *)
(* through a packed byte buffer (src/world/entry.rs, Archetype::             *)
(* pop_row_unchecked, push_from_buffer_and_component /                       *)
(* push_from_buffer_skipping_component, registry/sealed/storage.rs).         *)
(*                                                                         *)
(* Values are tokens <<component, entity>>.  A table is a record of columns  *)
(* (sequences of tokens PHYSICALLY present, possibly longer than `len`), an   *)
(* identifier column and the shared length.  `loc` is the allocator's         *)
(* location index.  Steps are taken at the granularity at which user code     *)
(* can run (only the Drop of the removed component is a call-back), so        *)
(*   PopRow     every column swap-removes row `row` into the buffer, the      *)
(*              identifier column too, the moved-in last entity's location    *)
(*              is fixed, the length is decremented          (no call-back)   *)
(*   PushComp   one step per component of the registry: the component is      *)
(*              read from the buffer and pushed to the destination column,    *)
(*              or (the removed one) skipped                                  *)
(*   PushId     identifier pushed, destination length incremented             *)
(*   SetLoc     allocator location of the entity rewritten                    *)
(* Where the removed component is dropped is the constant Design:             *)
(*   "none"  never (the pinned tree: the value leaks -- C04)                  *)
(*   "mid"   when the walk skips it, i.e. between PushComp steps (first        *)
(*           repair, /repo 6793a37)                                           *)
(*   "last"  after SetLoc (/repo a8b823c)                                     *)
(* A Drop may panic; the operation is then abandoned where it is.             *)
(*                                                                         *)
(* ExactlyOnce (C04): when the operation completes the removed value has      *)
(* been dropped, and nothing else has.  Consistent (C17, C02): whenever       *)
(* control is back with the caller (completed or panicked) every identifier   *)
(* resolves to a row inside its table that holds that entity's own values,    *)
(* and no value reachable in a table has been dropped.  "none" violates       *)
(* ExactlyOnce, "mid" violates Consistent, "last" satisfies both.             *)
(***************************************************************************)
EXTENDS Naturals, Sequences, FiniteSets, TLC

CONSTANTS NComp,        \* registry components 1..NComp, in registry order
          MaxSrc, MaxDst, \* bounds on the rows of the source / destination table
          Design

VARIABLE p              \* the instance, chosen in Init and never changed:
SrcSet == p.set         \*   component set of the source table
X == p.x                \*   the component added / removed
Op == p.op              \*   "add" | "remove"
NSrc == p.nsrc          \*   rows in the source / destination table before the operation
NDst == p.ndst
Instances == {i \in [set : SUBSET (1..NComp), x : 1..NComp, op : {"add", "remove"}, nsrc : 1..MaxSrc, ndst : 0..MaxDst] :
                (i.op = "add" => i.x \notin i.set) /\ (i.op = "remove" => i.x \in i.set)}
DstSet == IF Op = "add" THEN SrcSet \cup {X} ELSE SrcSet \ {X}
Comps == 1..NComp
SrcEnts == 1..NSrc
DstEnts == (NSrc + 1)..(NSrc + NDst)
Fresh == 0                      \* the entity number used for the token of an added component

VARIABLES src, dst,           \* [cols: [set -> Seq(token)], ids: Seq(entity), len: Nat]
          loc,                \* entity -> [t: "src" | "dst", r: row (1-based)]
          buf,                \* packed row buffer: component -> token (bitwise copies)
          moved, row,         \* the entity being moved and its row
          walk,               \* next registry component of the push walk
          pc, dropped, twice
vars == <<p, src, dst, loc, buf, moved, row, walk, pc, dropped, twice>>

Tab(set, ents) == [cols |-> [c \in set |-> [k \in 1..Len(ents) |-> <<c, ents[k]>>]],
                   ids |-> ents, len |-> Len(ents)]
SeqOf(S) == LET lo == CHOOSE a \in S : \A y \in S : a <= y IN [k \in 1..Cardinality(S) |-> lo + k - 1]

Init ==
  /\ p \in Instances
  /\ src = Tab(SrcSet, SeqOf(SrcEnts))
  /\ dst = IF NDst = 0 THEN Tab(DstSet, <<>>) ELSE Tab(DstSet, SeqOf(DstEnts))
  /\ loc = [e \in SrcEnts \cup DstEnts |-> IF e \in SrcEnts THEN [t |-> "src", r |-> e] ELSE [t |-> "dst", r |-> e - NSrc]]
  /\ buf = <<>> /\ moved \in SrcEnts /\ row = moved /\ walk = 1
  /\ pc = "pop" /\ dropped = {} /\ twice = {}

(* what is physically in a column after Vec::swap_remove: the hole holds the last element; the last
   slot keeps its bits *)
AfterSwap(s, i, n) == [k \in 1..Len(s) |-> IF k = i THEN s[n] ELSE s[k]]

PopRow ==
  /\ pc = "pop"
  /\ buf' = [c \in SrcSet |-> src.cols[c][row]]
  /\ src' = [cols |-> [c \in SrcSet |-> AfterSwap(src.cols[c], row, src.len)],
             ids |-> AfterSwap(src.ids, row, src.len), len |-> src.len - 1]
  /\ loc' = IF row < src.len THEN [loc EXCEPT ![src.ids[src.len]].r = row] ELSE loc
  /\ pc' = "push"
  /\ UNCHANGED <<p, dst, moved, row, walk, dropped, twice>>

Drop(t) == /\ twice' = IF t \in dropped THEN twice \cup {t} ELSE twice
           /\ dropped' = dropped \cup {t}

PushTo(c, tok) == [dst EXCEPT !.cols[c] = [k \in 1..(dst.len + 1) |-> IF k <= dst.len THEN @[k] ELSE tok]]

PushComp ==
  /\ pc = "push" /\ walk <= NComp
  /\ LET c == walk IN
     IF Op = "remove" /\ c = X
     THEN \* the removed component: skipped; dropped here in the "mid" design (call-back: may panic)
          /\ UNCHANGED dst
          /\ IF Design = "mid"
             THEN /\ Drop(buf[c])
                  /\ \/ pc' = "push" /\ walk' = walk + 1
                     \/ pc' = "panicked" /\ UNCHANGED walk
             ELSE /\ UNCHANGED <<dropped, twice>> /\ pc' = "push" /\ walk' = walk + 1
     ELSE /\ dst' = IF c \in DstSet
                    THEN PushTo(c, IF c \in SrcSet THEN buf[c] ELSE <<c, Fresh>>)
                    ELSE dst
          /\ walk' = walk + 1 /\ pc' = "push"
          /\ UNCHANGED <<dropped, twice>>
  /\ UNCHANGED <<p, src, loc, buf, moved, row>>

PushId ==
  /\ pc = "push" /\ walk = NComp + 1
  /\ dst' = [dst EXCEPT !.ids = Append(SubSeq(@, 1, dst.len), moved), !.len = @ + 1]
  /\ pc' = "setloc"
  /\ UNCHANGED <<p, src, loc, buf, moved, row, walk, dropped, twice>>

SetLoc ==
  /\ pc = "setloc"
  /\ loc' = [loc EXCEPT ![moved] = [t |-> "dst", r |-> dst.len]]
  /\ pc' = IF Op = "remove" /\ Design = "last" THEN "droplast" ELSE "done"
  /\ UNCHANGED <<p, src, dst, buf, moved, row, walk, dropped, twice>>

DropLast ==
  /\ pc = "droplast"
  /\ Drop(buf[X])
  /\ pc' \in {"done", "panicked"}
  /\ UNCHANGED <<p, src, dst, loc, buf, moved, row, walk>>

Next == PopRow \/ PushComp \/ PushId \/ SetLoc \/ DropLast
        \/ (pc \in {"done", "panicked"} /\ UNCHANGED vars)
Spec == Init /\ [][Next]_vars

-----------------------------------------------------------------------------
T(name) == IF name = "src" THEN src ELSE dst
SetOf(name) == IF name = "src" THEN SrcSet ELSE DstSet
Back == pc \in {"done", "panicked"}           \* control is with the caller again
Reachable == UNION {UNION {{T(n).cols[c][k] : k \in 1..T(n).len} : c \in SetOf(n)} : n \in {"src", "dst"}}

(* C02 / C17: every identifier resolves to a row of its table that holds the entity's own values *)
Consistent ==
  Back => /\ \A e \in DOMAIN loc :
               LET l == loc[e] IN
               /\ l.r >= 1 /\ l.r <= T(l.t).len
               /\ T(l.t).ids[l.r] = e
               /\ \A c \in SetOf(l.t) : T(l.t).cols[c][l.r] \in {<<c, e>>, <<c, Fresh>>}
          /\ twice = {}
          /\ Reachable \cap dropped = {}
(* C04: a completed operation dropped exactly the removed value (nothing for add) *)
ExactlyOnce ==
  pc = "done" => dropped = (IF Op = "remove" THEN {<<X, moved>>} ELSE {})
(* C01: a completed operation moved the entity, with its other values, to the other table *)
Moved ==
  pc = "done" => /\ loc[moved].t = "dst"
                 /\ src.len = NSrc - 1 /\ dst.len = NDst + 1
                 /\ \A c \in DstSet : dst.cols[c][dst.len] = (IF c \in SrcSet THEN <<c, moved>> ELSE <<c, Fresh>>)
=============================================================================
