----------------------------- MODULE MCSchedule -----------------------------
EXTENDS Schedule

V(x, y) == [X |-> x, Y |-> y]
NoV == V("none", "none")
K(views, filter, entry, res) ==
  [views |-> views, filter |-> filter, entry |-> entry, res |-> [R |-> res], par |-> FALSE, id |-> FALSE]
MCKinds == {
  K(V("mut", "none"), <<"none">>, NoV, "none"),
  K(V("ref", "none"), <<"none">>, NoV, "none"),
  K(V("none", "mut"), <<"none">>, NoV, "none"),
  K(V("none", "ref"), <<"none">>, NoV, "none"),
  K(V("mut", "none"), <<"has", "Y">>, NoV, "none"),
  K(V("mut", "none"), <<"not", <<"has", "Y">>>>, NoV, "none"),
  K(V("optmut", "ref"), <<"none">>, NoV, "none"),
  K(NoV, <<"none">>, NoV, "mut"),
  K(V("none", "mut"), <<"none">>, NoV, "ref"),
  K(NoV, <<"none">>, V("mut", "none"), "none"),
  K(V("none", "mut"), <<"none">>, V("ref", "none"), "none") }
MCKinds4 == {
  K(V("mut", "none"), <<"none">>, NoV, "none"),
  K(V("ref", "none"), <<"none">>, NoV, "none"),
  K(V("none", "mut"), <<"none">>, NoV, "none"),
  K(V("none", "ref"), <<"none">>, NoV, "none"),
  K(V("mut", "none"), <<"has", "Y">>, NoV, "none"),
  K(V("none", "ref"), <<"none">>, NoV, "mut"),
  K(NoV, <<"none">>, V("mut", "none"), "none") }
MCArchs2 == {{"X"}, {"X", "Y"}}
MCArchs == {{"X"}, {"Y"}, {"X", "Y"}}
=============================================================================
