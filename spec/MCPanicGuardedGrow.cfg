SPECIFICATION Spec
CONSTANTS
  NCol = 3
  NRow = 3
  SRow = 4
  Ops = {"remove", "clear", "clone_from"}
  Guarded = TRUE
INVARIANT PanicSafe
CHECK_DEADLOCK FALSE
