------------------------------- MODULE Access -------------------------------
(***************************************************************************)
(* View kinds, claims, filters and the conflict relation shared by the      *)
(* query (C03), schedule (C07, C08, C12), parallel (C09) and borrow (C14)   *)
(* specifications.                                                          *)
(*                                                                         *)
(* A task / query descriptor is a record                                    *)
(*   [views: Comp -> ViewKind, filter: FilterAST, entry: Comp -> ViewKind,  *)
(*    res: Res -> ViewKind, par: BOOLEAN, id: BOOLEAN]                      *)
(* ViewKind = "none" | "ref" | "mut" | "optref" | "optmut"                  *)
(* FilterAST = <<"none">> | <<"has", c>> | <<"not", f>> | <<"and", f, g>>   *)
(*           | <<"or", f, g>> | <<"vref", c>> | <<"vmut", c>> | <<"vopt", c>> *)
(* An archetype is the set of its components.                               *)
(***************************************************************************)
EXTENDS Naturals, Sequences, FiniteSets

ViewKinds == {"none", "ref", "mut", "optref", "optmut"}
Claim(kind) == CASE kind \in {"ref", "optref"} -> "imm"
                 [] kind \in {"mut", "optmut"} -> "mut"
                 [] OTHER -> "none"
Conflict(a, b) == (a = "mut" /\ b # "none") \/ (b = "mut" /\ a # "none")
JoinClaim(a, b) == IF "mut" \in {a, b} THEN "mut" ELSE IF "imm" \in {a, b} THEN "imm" ELSE "none"

RECURSIVE Eval(_, _)
Eval(f, arch) ==
  CASE f[1] = "none" -> TRUE
    [] f[1] = "has" -> f[2] \in arch
    [] f[1] = "not" -> ~Eval(f[2], arch)
    [] f[1] = "and" -> Eval(f[2], arch) /\ Eval(f[3], arch)
    [] f[1] = "or" -> Eval(f[2], arch) \/ Eval(f[3], arch)
    [] f[1] \in {"vref", "vmut"} -> f[2] \in arch      \* a view used as a filter
    [] f[1] = "vopt" -> TRUE

CompsOfQ(q) == DOMAIN q.views
Required(q) == {c \in CompsOfQ(q) : q.views[c] \in {"ref", "mut"}}
(* the code's And<Views, Filter>: the filter holds and every non-optional viewed component is
   present *)
Matches(q, arch) == Eval(q.filter, arch) /\ Required(q) \subseteq arch

(* what a task can do to component c of a row stored in archetype arch, through its iterator ... *)
IterClaim(q, arch, c) == IF Matches(q, arch) /\ c \in arch THEN Claim(q.views[c]) ELSE "none"
(* ... and through its entry views, which can reach any entity by identifier *)
EntryClaim(q, arch, c) == IF c \in arch THEN Claim(q.entry[c]) ELSE "none"
CellClaim(q, arch, c) == JoinClaim(IterClaim(q, arch, c), EntryClaim(q, arch, c))

ResConflict(q1, q2) == \E r \in DOMAIN q1.res : Conflict(Claim(q1.res[r]), Claim(q2.res[r]))

(* two tasks can touch the same data of some stored entity (archs: archetypes that hold rows) *)
DynConflict(q1, q2, archs) ==
  \/ \E arch \in archs : \E c \in arch : Conflict(CellClaim(q1, arch, c), CellClaim(q2, arch, c))
  \/ ResConflict(q1, q2)

(* declared access only (what the compile-time stager can see) *)
StaticClaim(q, c) == JoinClaim(Claim(q.views[c]), Claim(q.entry[c]))
StaticConflict(q1, q2) ==
  \/ \E c \in CompsOfQ(q1) : Conflict(StaticClaim(q1, c), StaticClaim(q2, c))
  \/ ResConflict(q1, q2)

(* greedy in-order grouping: a new group starts at the first task that conflicts with a task of
   the current group.  Stage(tasks)[t] = group number of task t *)
RECURSIVE StageOf(_, _)
StageOf(tasks, t) ==
  IF t = 1 THEN 1
  ELSE LET prev == StageOf(tasks, t - 1)
           group == {u \in 1..(t - 1) : StageOf(tasks, u) = prev} IN
       IF \E u \in group : StaticConflict(tasks[u], tasks[t]) THEN prev + 1 ELSE prev
=============================================================================
