SPECIFICATION Spec
CONSTANTS
  MaxCap = 4
  AdoptGuard = "len0"
INVARIANTS Recorded NoLeak LenFits
CONSTRAINT Bound
CHECK_DEADLOCK FALSE
