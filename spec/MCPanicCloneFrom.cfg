SPECIFICATION Spec
CONSTANTS
  NCol = 3
  NRow = 3
  SRow = 2
  Ops = {"clone_from"}
  Guarded = FALSE
INVARIANT PanicSafe
CHECK_DEADLOCK FALSE
