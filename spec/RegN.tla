-------------------------------- MODULE RegN --------------------------------
(***************************************************************************)
(* A world over a registry of n components K_0 .. K_(n-1), for any n.       *)
(* The archetype identifier of a component set is its characteristic bit    *)
(* set written as ceil(n/8) little-endian bytes (src/archetype/identifier); *)
(* the unused high bits of the last byte are padding and exist iff          *)
(* n % 8 # 0.  This module states, as a function of n,                      *)
(*   - the wire form of an identifier and which wire forms are accepted     *)
(*     (src/archetype/identifier/impl_serde.rs),                            *)
(*   - the tables a construction history creates (one per intermediate      *)
(*     component set: Entry::add / Entry::remove move an entity one         *)
(*     component at a time and never delete a table),                       *)
(*   - what every public observation of the resulting world must be.        *)
(* The main world model (WorldStore / TraceWorld) fixes n = 9; this one     *)
(* varies n over both sides of every byte boundary (1, 7, 8, 15, 16, 17,    *)
(* 24) with a deliberately small operation alphabet.                        *)
(***************************************************************************)
EXTENDS Naturals, Sequences, FiniteSets

Bit(m, c) == (m \div 2^c) % 2 = 1
NBytes(n) == (n + 7) \div 8
IdBytes(m, n) == [k \in 1..NBytes(n) |-> (m \div 2^(8 * (k - 1))) % 256]
(* the deserializer's check of an identifier: right number of bytes, padding bits all zero *)
WireAccepts(bytes, n) ==
  /\ Len(bytes) = NBytes(n)
  /\ \A k \in DOMAIN bytes : bytes[k] < 256
  /\ (n % 8 = 0 \/ bytes[Len(bytes)] < 2^(n % 8))
(* a valid identifier always serializes to an accepted wire form: for every n and every m < 2^n *)
EncodeAccepted(n) == \A m \in 0..(2^n - 1) : WireAccepts(IdBytes(m, n), n)

(* building an entity with component set m, lowest component first, visits these tables *)
Prefixes(m, n) == {m % 2^k : k \in 0..n}

RECURSIVE ApplyRemcs(_, _, _)
ApplyRemcs(ms, tabs, rs) ==
  IF rs = <<>> THEN [ms |-> ms, tabs |-> tabs]
  ELSE LET e == rs[1][1] + 1
           c == rs[1][2]
           m2 == IF Bit(ms[e], c) THEN ms[e] - 2^c ELSE ms[e] IN
       ApplyRemcs([ms EXCEPT ![e] = m2], tabs \cup {m2}, Tail(rs))

(* the world after: one entity per mask (inserted in order into a fresh world), then the
   component removals <<entity, component>>, then the entity removals (0-based entity numbers) *)
Built(masks, remcs, removes, n) ==
  LET ms0 == [e \in DOMAIN masks |-> masks[e] % 2^n]
      t0 == UNION {Prefixes(ms0[e], n) : e \in DOMAIN masks}
      r == ApplyRemcs(ms0, t0, remcs)
      dead == {removes[k] + 1 : k \in DOMAIN removes} IN
  [final |-> r.ms, tabs |-> r.tabs, live |-> DOMAIN masks \ dead,
   free |-> removes, slots |-> Len(masks)]

RECURSIVE SumVals(_, _)
SumVals(S, c) == IF S = {} THEN 0 ELSE LET x == CHOOSE x \in S : TRUE IN (1000 * x + c) + SumVals(S \ {x}, c)
Holders(b, c) == {e \in b.live : Bit(b.final[e], c)}
ExpCount(b, c) == Cardinality(Holders(b, c))
ExpSum(b, c) == SumVals(Holders(b, c), c)     \* entity e (1-based) holds K_c(1000 * e + c)
ExpRows(b, bits) == Cardinality({e \in b.live : b.final[e] = bits})
=============================================================================
