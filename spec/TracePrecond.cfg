SPECIFICATION Spec
INVARIANT Complete
POSTCONDITION Done
CHECK_DEADLOCK FALSE
