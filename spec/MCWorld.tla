------------------------------ MODULE MCWorld ------------------------------
(***************************************************************************)
(* Bounded model checking of the implementation-shaped store (WorldStore)  *)
(* against the reference map: every history of public operations over      *)
(* NWorlds worlds, NComp components, at most MaxCreate value creations and *)
(* batches of 0..MaxBatch rows.                                            *)
(*   Inv_C13  the structural invariant StoreInv holds after every step     *)
(*   Inv_C01  the store represents exactly the reference map, len agrees   *)
(*   Inv_C02  returned identifiers are new; an identifier resolves iff it  *)
(*            is live in the reference map (stale ones never resolve)      *)
(*   Inv_C06  every reachable store is accepted by deserialization         *)
(***************************************************************************)
EXTENDS WorldStore, TLC

CONSTANTS NWorlds, MaxCreate, MaxBatch
WorldIds == 1..NWorlds

VARIABLES live, ws, abs, issued, cnt, bad
vars == <<live, ws, abs, issued, cnt, bad>>

Init == /\ live = [w \in WorldIds |-> w = 1]
        /\ ws = [w \in WorldIds |-> EmptyStore]
        /\ abs = [w \in WorldIds |-> <<>>]
        /\ issued = [w \in WorldIds |-> {}]
        /\ cnt = 0
        /\ bad = FALSE

Vals(bits, v) == [c \in CompsOf(bits) |-> v]

DoInsert(w, bits) ==
  /\ live[w] /\ cnt < MaxCreate
  /\ LET r == Insert(ws[w], bits, Vals(bits, cnt + 1)) IN
     /\ ws' = [ws EXCEPT ![w] = r.s]
     /\ abs' = [abs EXCEPT ![w] = Put(@, r.id, Vals(bits, cnt + 1))]
     /\ bad' = (bad \/ r.id \in issued[w])
     /\ issued' = [issued EXCEPT ![w] = @ \cup {r.id}]
  /\ cnt' = cnt + 1
  /\ UNCHANGED live

RECURSIVE PutAll(_, _, _)
PutAll(f, ids, rows) == IF ids = <<>> THEN f
                        ELSE PutAll(Put(f, Head(ids), Head(rows)), Tail(ids), Tail(rows))
DoExtend(w, bits, n) ==
  /\ live[w] /\ cnt + n <= MaxCreate
  /\ LET rows == [k \in 1..n |-> Vals(bits, cnt + k)]
         r == Extend(ws[w], bits, rows) IN
     /\ ws' = [ws EXCEPT ![w] = r.s]
     /\ abs' = [abs EXCEPT ![w] = PutAll(@, r.ids, rows)]
     /\ bad' = (bad \/ Len(r.ids) # n \/ Cardinality({r.ids[k] : k \in DOMAIN r.ids}) # n
                    \/ \E k \in DOMAIN r.ids : r.ids[k] \in issued[w])
     /\ issued' = [issued EXCEPT ![w] = @ \cup {r.ids[k] : k \in DOMAIN r.ids}]
  /\ cnt' = cnt + n
  /\ UNCHANGED live

DoRemove(w, id) ==
  /\ live[w]
  /\ ws' = [ws EXCEPT ![w] = RemoveEntity(@, id)]
  /\ abs' = [abs EXCEPT ![w] = Drop(@, {id})]
  /\ UNCHANGED <<live, issued, cnt, bad>>

Perms(S) == {p \in [1..Cardinality(S) -> S] : \A a, b \in DOMAIN p : a # b => p[a] # p[b]}
DoClear(w, order) ==
  /\ live[w]
  /\ ws' = [ws EXCEPT ![w] = Clear(@, order)]
  /\ abs' = [abs EXCEPT ![w] = <<>>]
  /\ UNCHANGED <<live, issued, cnt, bad>>

DoAdd(w, id, c) ==
  /\ live[w] /\ cnt < MaxCreate
  /\ ws' = [ws EXCEPT ![w] = EntryAdd(@, id, c, cnt + 1)]
  /\ abs' = [abs EXCEPT ![w] = IF id \in DOMAIN @ THEN Put(@, id, Put(@[id], c, cnt + 1)) ELSE @]
  /\ cnt' = cnt + 1
  /\ UNCHANGED <<live, issued, bad>>

DoRemc(w, id, c) ==
  /\ live[w]
  /\ ws' = [ws EXCEPT ![w] = EntryRemove(@, id, c)]
  /\ abs' = [abs EXCEPT ![w] = IF id \in DOMAIN @ THEN Put(@, id, Drop(@[id], {c})) ELSE @]
  /\ UNCHANGED <<live, issued, cnt, bad>>

DoReserve(w, bits) ==
  /\ live[w]
  /\ ws' = [ws EXCEPT ![w] = Reserve(@, bits)]
  /\ UNCHANGED <<live, abs, issued, cnt, bad>>

DoShrink(w) ==
  /\ live[w]
  /\ ws' = [ws EXCEPT ![w] = ShrinkToFit(@)]
  /\ UNCHANGED <<live, abs, issued, cnt, bad>>

Copy(src, dst, store) ==
  /\ live' = [live EXCEPT ![dst] = TRUE]
  /\ ws' = [ws EXCEPT ![dst] = store]
  /\ abs' = [abs EXCEPT ![dst] = abs[src]]
  /\ issued' = [issued EXCEPT ![dst] = issued[src]]
  /\ UNCHANGED <<cnt, bad>>
DoClone(src, dst) == live[src] /\ ~live[dst] /\ Copy(src, dst, CloneOf(ws[src]))
DoCloneFrom(dst, src) == live[src] /\ live[dst] /\ src # dst /\ Copy(src, dst, CloneFrom(ws[dst], ws[src]))
DoSerDe(src, dst) == live[src] /\ ~live[dst] /\ SerDeAccepts(ws[src]) /\ Copy(src, dst, SerDeOf(ws[src]))
(* round trip in place (used by the single-world instance): serialize, drop, deserialize *)
DoSerDeInPlace(w) ==
  /\ live[w] /\ SerDeAccepts(ws[w])
  /\ ws' = [ws EXCEPT ![w] = SerDeOf(@)]
  /\ UNCHANGED <<live, abs, issued, cnt, bad>>
DoDrop(w) ==
  /\ live[w] /\ \E o \in WorldIds : o # w /\ live[o]
  /\ live' = [live EXCEPT ![w] = FALSE]
  /\ ws' = [ws EXCEPT ![w] = EmptyStore]
  /\ abs' = [abs EXCEPT ![w] = <<>>]
  /\ issued' = [issued EXCEPT ![w] = {}]
  /\ UNCHANGED <<cnt, bad>>

NonEmptyFirst(s) ==   \* iteration orders that differ in the relative order of non-empty tables
  LET ne == {b \in TableKeys(s) : s.tables[b].ids # <<>>}
      e == SetToSortSeq(TableKeys(s) \ ne, <) IN
  {p \o e : p \in Perms(ne)}

Next ==
  \E w \in WorldIds :
     \/ \E bits \in AllBits : DoInsert(w, bits) \/ DoReserve(w, bits)
     \/ \E bits \in AllBits, n \in 0..MaxBatch : DoExtend(w, bits, n)
     \/ \E id \in issued[w] : DoRemove(w, id)
     \/ \E id \in issued[w], c \in CompIdx : DoAdd(w, id, c) \/ DoRemc(w, id, c)
     \/ \E order \in NonEmptyFirst(ws[w]) : DoClear(w, order)
     \/ DoShrink(w)
     \/ DoSerDeInPlace(w)
     \/ DoDrop(w)
     \/ \E o \in WorldIds : DoClone(w, o) \/ DoCloneFrom(w, o) \/ DoSerDe(w, o)

Spec == Init /\ [][Next]_vars

Inv_C13 == \A w \in WorldIds : live[w] => StoreInvHolds(DumpOf(ws[w]))
Inv_C01 == \A w \in WorldIds : live[w] =>
              /\ RefMap(ws[w]) = abs[w]
              /\ ws[w].len = Cardinality(DOMAIN abs[w])
Inv_C02 == /\ ~bad
           /\ \A w \in WorldIds : live[w] =>
                 \A id \in issued[w] : (Resolve(ws[w], id) # NoLoc) <=> (id \in DOMAIN abs[w])
Inv_C06 == \A w \in WorldIds : live[w] => SerDeAccepts(ws[w])
(* equality is symmetric and implies the same reference map (C16) *)
Inv_C16 == \A a, b \in WorldIds : (live[a] /\ live[b]) =>
              /\ StoreEq(ws[a], ws[b]) = StoreEq(ws[b], ws[a])
              /\ StoreEq(ws[a], ws[b]) => RefMap(ws[a]) = RefMap(ws[b])
              /\ StoreEq(ws[a], ws[a])
(* a copy represents the same map as its source at the moment it is made (C10, C06) is part of
   Inv_C01 because Copy sets abs[dst] = abs[src] *)
=============================================================================
