SPECIFICATION Spec
CONSTANTS
  NCol = 3
  NRow = 3
  Guarded = TRUE
INVARIANT PanicSafe
CHECK_DEADLOCK FALSE
