SPECIFICATION Spec
CONSTANTS
  NComp = 2
  NWorlds = 2
  MaxCreate = 1
  MaxBatch = 1
INVARIANTS Inv_C13 Inv_C01 Inv_C02 Inv_C06 Inv_C16
CHECK_DEADLOCK FALSE
