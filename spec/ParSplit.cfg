SPECIFICATION Spec
CONSTANTS
  NRows = 5
  ColKinds <- MCKinds3
  RepeatRight = "count-index"
INVARIANTS EveryRowOnce NeverTwice SlicesAgree
CHECK_DEADLOCK FALSE
