SPECIFICATION Spec
CONSTANTS
  Kinds <- MCKinds4
  AllArchs <- MCArchs2
  MaxTasks = 4
  DupKeys = FALSE
INVARIANTS NoConflictingOverlap ExactlyOnce SeqEquivalent GreedyParallel
PROPERTY Termination
CHECK_DEADLOCK TRUE
