----------------------------- MODULE WorldStore -----------------------------
(***************************************************************************)
(* Implementation-shaped model of brood's World storage: the generational  *)
(* entity allocator (slots + FIFO free list), the archetype tables (one    *)
(* per component set, columns + identifier column, swap-remove), the two   *)
(* lookup tables (by entity type, by identifier bytes) and `len`, with one *)
(* pure operator per code path (src/entity/allocator/mod.rs,               *)
(* src/archetype/mod.rs, src/archetypes/mod.rs, src/world/mod.rs,          *)
(* src/world/entry.rs, the serde impls).  This is the STRICT reading: it   *)
(* fixes policy (FIFO reuse, swap-remove, eager table creation).  It is    *)
(* (a) model-checked by MCWorld for every bounded history against StoreInv *)
(* (C13), the identifier discipline (C02) and refinement of the reference  *)
(* map (C01, C10, C06); (b) compared with the real store dump after every  *)
(* event of every trace (SPEC-DRIFT report) so that the exhaustive result  *)
(* speaks about the code and not only about the model.                     *)
(*                                                                         *)
(* A store value is a record                                               *)
(*   [slots: Seq([g, loc]), free: Seq(Nat), tables: [bits -> table],       *)
(*    tl: SUBSET bits, fl: SUBSET bits, len: Nat]                          *)
(* table = [ids: Seq(<<index, gen>>), cols: [comp -> Seq(val)]]            *)
(* loc = [t: bits or -1, r: row].  Identifiers are <<index, generation>>.  *)
(***************************************************************************)
EXTENDS Naturals, Integers, Sequences, FiniteSets, SequencesExt, StoreInv

CONSTANT NComp            \* number of registry components (bit c = c-th component)
AllBits == 0..(2^NComp - 1)
CompIdx == 0..(NComp - 1)
Has(bits, c) == (bits \div (2^c)) % 2 = 1
CompsOf(bits) == {c \in CompIdx : Has(bits, c)}
WithBit(bits, c) == IF Has(bits, c) THEN bits ELSE bits + 2^c
WithoutBit(bits, c) == IF Has(bits, c) THEN bits - 2^c ELSE bits

NoLoc == [t |-> -1, r |-> 0]
EmptyTable(bits) == [ids |-> <<>>, cols |-> [c \in CompsOf(bits) |-> <<>>]]
EmptyStore == [slots |-> <<>>, free |-> <<>>, tables |-> <<>>, tl |-> {}, fl |-> {}, len |-> 0]
TableKeys(s) == DOMAIN s.tables

(* function update helpers *)
Put(f, k, v) == [x \in (DOMAIN f) \cup {k} |-> IF x = k THEN v ELSE f[x]]
Drop(f, ks) == [x \in (DOMAIN f) \ ks |-> f[x]]
SwapRemove(seq, r) ==   \* r is 0-based; Vec::swap_remove
  LET n == Len(seq) IN
  IF r = n - 1 THEN SubSeq(seq, 1, n - 1)
  ELSE [k \in 1..(n - 1) |-> IF k = r + 1 THEN seq[n] ELSE seq[k]]

-----------------------------------------------------------------------------
(* entity allocator: src/entity/allocator/mod.rs                             *)
Resolve(s, id) ==      \* Allocator::get / is_active
  IF id[1] < Len(s.slots) /\ s.slots[id[1] + 1].g = id[2] /\ s.slots[id[1] + 1].loc # NoLoc
  THEN s.slots[id[1] + 1].loc ELSE NoLoc

Allocate(s, loc) ==    \* returns [s, id]
  IF s.free # <<>>
  THEN LET i == Head(s.free)
           g == s.slots[i + 1].g + 1 IN
       [s |-> [s EXCEPT !.free = Tail(@), !.slots[i + 1] = [g |-> g, loc |-> loc]],
        id |-> <<i, g>>]
  ELSE [s |-> [s EXCEPT !.slots = Append(@, [g |-> 0, loc |-> loc])],
        id |-> <<Len(s.slots), 0>>]

(* allocate_batch: reuse free slots while locations remain, then extend the slot vector *)
RECURSIVE AllocateBatch(_, _, _, _)
AllocateBatch(s, bits, row, n) ==   \* returns [s, ids]
  IF n = 0 THEN [s |-> s, ids |-> <<>>]
  ELSE LET a == Allocate(s, [t |-> bits, r |-> row])
           rest == AllocateBatch(a.s, bits, row + 1, n - 1) IN
       [s |-> rest.s, ids |-> <<a.id>> \o rest.ids]

Free(s, id) == [s EXCEPT !.slots[id[1] + 1].loc = NoLoc, !.free = Append(@, id[1])]

-----------------------------------------------------------------------------
(* archetype lookup: src/archetypes/mod.rs                                   *)
(* get_mut_or_insert_new_for_entity: type-id lookup, then bytes lookup, then create *)
ForEntity(s, bits) ==
  IF bits \in s.tl THEN s
  ELSE IF bits \in s.fl THEN [s EXCEPT !.tl = @ \cup {bits}]
  ELSE [s EXCEPT !.tl = @ \cup {bits}, !.fl = @ \cup {bits},
                 !.tables = Put(@, bits, EmptyTable(bits))]
(* get_mut_or_insert_new: bytes lookup, then create *)
ForBits(s, bits) ==
  IF bits \in s.fl THEN s
  ELSE [s EXCEPT !.fl = @ \cup {bits}, !.tables = Put(@, bits, EmptyTable(bits))]

(* archetype rows: src/archetype/mod.rs                                      *)
PushRow(s, bits, id, vals) ==   \* vals: [comp -> val]
  [s EXCEPT !.tables[bits] =
      [ids |-> Append(@.ids, id),
       cols |-> [c \in DOMAIN @.cols |-> Append(@.cols[c], vals[c])]]]

(* remove_row_unchecked / pop_row_unchecked: swap-remove every column and the identifier column,
   re-point the entity that was moved into the hole *)
TakeRow(s, bits, r) ==
  LET t == s.tables[bits]
      n == Len(t.ids)
      moved == t.ids[n]
      s1 == IF r < n - 1
            THEN [s EXCEPT !.slots[moved[1] + 1].loc.r = r]
            ELSE s IN
  [s1 EXCEPT !.tables[bits] =
      [ids |-> SwapRemove(t.ids, r),
       cols |-> [c \in DOMAIN t.cols |-> SwapRemove(t.cols[c], r)]]]
RowVals(s, bits, r) == [c \in DOMAIN s.tables[bits].cols |-> s.tables[bits].cols[c][r + 1]]

-----------------------------------------------------------------------------
(* World operations: src/world/mod.rs, src/world/entry.rs                     *)
Insert(s, bits, vals) ==   \* returns [s, id]
  LET s1 == ForEntity([s EXCEPT !.len = @ + 1], bits)
      row == Len(s1.tables[bits].ids)
      a == Allocate(s1, [t |-> bits, r |-> row]) IN
  [s |-> PushRow(a.s, bits, a.id, vals), id |-> a.id]

RECURSIVE PushRows(_, _, _, _)
PushRows(s, bits, ids, rows) ==
  IF ids = <<>> THEN s
  ELSE PushRows(PushRow(s, bits, Head(ids), Head(rows)), bits, Tail(ids), Tail(rows))

Extend(s, bits, rows) ==   \* rows: Seq([comp -> val]); returns [s, ids]
  LET s1 == ForEntity([s EXCEPT !.len = @ + Len(rows)], bits)
      first == Len(s1.tables[bits].ids)
      a == AllocateBatch(s1, bits, first, Len(rows)) IN
  [s |-> PushRows(a.s, bits, a.ids, rows), ids |-> a.ids]

RemoveEntity(s, id) ==
  LET loc == Resolve(s, id) IN
  IF loc = NoLoc THEN s
  ELSE [Free(TakeRow(s, loc.t, loc.r), id) EXCEPT !.len = @ - 1]

(* Archetypes::clear: every table (in iteration order `order`) frees its identifiers row by row *)
RECURSIVE FreeAll(_, _)
FreeAll(s, ids) == IF ids = <<>> THEN s ELSE FreeAll(Free(s, Head(ids)), Tail(ids))
RECURSIVE ClearTables(_, _)
ClearTables(s, order) ==
  IF order = <<>> THEN s
  ELSE LET b == Head(order)
           s1 == FreeAll(s, s.tables[b].ids) IN
       ClearTables([s1 EXCEPT !.tables[b] = EmptyTable(b)], Tail(order))
Clear(s, order) == [ClearTables(s, order) EXCEPT !.len = 0]

Reserve(s, bits) == ForEntity(s, bits)

(* Entry::add *)
EntryAdd(s, id, c, v) ==
  LET loc == Resolve(s, id) IN
  IF loc = NoLoc THEN s
  ELSE IF Has(loc.t, c)
       THEN [s EXCEPT !.tables[loc.t].cols[c][loc.r + 1] = v]
       ELSE LET vals == RowVals(s, loc.t, loc.r)
                s1 == TakeRow(s, loc.t, loc.r)
                nb == WithBit(loc.t, c)
                s2 == ForBits(s1, nb)
                row == Len(s2.tables[nb].ids)
                s3 == PushRow(s2, nb, id, Put(vals, c, v)) IN
            [s3 EXCEPT !.slots[id[1] + 1].loc = [t |-> nb, r |-> row]]
(* Entry::remove *)
EntryRemove(s, id, c) ==
  LET loc == Resolve(s, id) IN
  IF loc = NoLoc \/ ~Has(loc.t, c) THEN s
  ELSE LET vals == RowVals(s, loc.t, loc.r)
           s1 == TakeRow(s, loc.t, loc.r)
           nb == WithoutBit(loc.t, c)
           s2 == ForBits(s1, nb)
           row == Len(s2.tables[nb].ids)
           s3 == PushRow(s2, nb, id, Drop(vals, {c})) IN
       [s3 EXCEPT !.slots[id[1] + 1].loc = [t |-> nb, r |-> row]]

(* Archetypes::shrink_to_fit: erase empty tables and their lookup entries *)
ShrinkToFit(s) ==
  LET empty == {b \in TableKeys(s) : s.tables[b].ids = <<>>} IN
  [s EXCEPT !.tables = Drop(@, empty), !.tl = @ \ empty, !.fl = @ \ empty]

(* World::clone: tables cloned one by one, locations re-targeted through the identifier map *)
CloneOf(s) == s
(* World::clone_from *)
CloneFrom(dst, src) ==
  [slots |-> src.slots, free |-> src.free, len |-> src.len,
   tables |-> [b \in TableKeys(dst) \cup TableKeys(src) |->
                  IF b \in TableKeys(src) THEN src.tables[b] ELSE EmptyTable(b)],
   fl |-> dst.fl \cup TableKeys(src),
   tl |-> dst.tl \cup src.tl]
(* serialize + deserialize: tables as they are, allocator rebuilt from (length, free) and the
   identifiers found in the tables; the type-id lookup starts empty *)
SerDeOf(s) == [s EXCEPT !.tl = {}]
(* Allocator::from_serialized_parts succeeds iff every slot index below `length` is accounted for
   exactly once by the free list and the stored identifiers *)
SerDeAccepts(s) ==
  LET n == Len(s.slots)
      freed == [k \in DOMAIN s.free |-> s.free[k]]
      stored == UNION {{id[1] : id \in {s.tables[b].ids[k] : k \in DOMAIN s.tables[b].ids}} : b \in TableKeys(s)}
      nrows == Cardinality(UNION {{<<b, k>> : k \in DOMAIN s.tables[b].ids} : b \in TableKeys(s)}) IN
  /\ \A k \in DOMAIN freed : freed[k] < n
  /\ Cardinality({freed[k] : k \in DOMAIN freed}) = Len(freed)
  /\ \A i \in stored : i < n
  /\ Cardinality(stored) = nrows          \* no slot index stored twice
  /\ {freed[k] : k \in DOMAIN freed} \cap stored = {}
  /\ {freed[k] : k \in DOMAIN freed} \cup stored = 0..(n - 1)

-----------------------------------------------------------------------------
(* World::eq (src/world/impl_eq.rs, src/archetypes/impl_eq.rs, src/archetype/mod.rs component_eq,    *)
(* src/entity/allocator/mod.rs): same len; same number of tables and every table of `a` has a table   *)
(* of `b` with the same identifier bytes, the same identifier column (in order) and the same          *)
(* columns (in order); same slots (generation, table bytes, row) and the same free list (in order).   *)
(* The lookup tables, table order and capacities are not compared.                                    *)
StoreEq(a, b) ==
  /\ a.len = b.len
  /\ Cardinality(TableKeys(a)) = Cardinality(TableKeys(b))
  /\ \A k \in TableKeys(a) : k \in TableKeys(b) /\ a.tables[k].ids = b.tables[k].ids
                                                 /\ a.tables[k].cols = b.tables[k].cols
  /\ a.slots = b.slots
  /\ a.free = b.free

-----------------------------------------------------------------------------
(* abstraction function: the reference map represented by a store             *)
RefMap(s) ==
  LET stored == UNION {{<<b, k>> : k \in DOMAIN s.tables[b].ids} : b \in TableKeys(s)} IN
  [id \in {s.tables[p[1]].ids[p[2]] : p \in stored} |->
     LET p == CHOOSE p \in stored : s.tables[p[1]].ids[p[2]] = id IN
     [c \in DOMAIN s.tables[p[1]].cols |-> s.tables[p[1]].cols[c][p[2]]]]

(* the dump of a store, in the format of StoreInv (tables in ascending bits order) *)
TableSeq(s) == SetToSortSeq(TableKeys(s), <)
TableIdx(s, b) == IF b \in TableKeys(s)
                  THEN (CHOOSE k \in DOMAIN TableSeq(s) : TableSeq(s)[k] = b) - 1
                  ELSE -1
DumpOf(s) ==
  [len |-> s.len,
   slots |-> [i \in DOMAIN s.slots |->
                [g |-> s.slots[i].g, a |-> s.slots[i].loc # NoLoc,
                 t |-> IF s.slots[i].loc = NoLoc THEN -2 ELSE TableIdx(s, s.slots[i].loc.t),
                 r |-> s.slots[i].loc.r, id |-> <<i - 1, s.slots[i].g>>]],
   free |-> s.free,
   tables |-> [k \in DOMAIN TableSeq(s) |->
                LET t == s.tables[TableSeq(s)[k]] IN
                [bits |-> TableSeq(s)[k], len |-> Len(t.ids), ids |-> t.ids,
                 idx |-> [j \in DOMAIN t.ids |-> t.ids[j][1]],
                 idcap |-> Len(t.ids),
                 collens |-> {Len(t.cols[c]) : c \in DOMAIN t.cols},
                 caps |-> [j \in 1..Cardinality(DOMAIN t.cols) |->
                             Len(t.cols[CHOOSE c \in DOMAIN t.cols :
                                   Cardinality({x \in DOMAIN t.cols : x < c}) = j - 1])]]],
   tl |-> [k \in 1..Cardinality(s.tl) |-> TableIdx(s, SetToSortSeq(s.tl, <)[k])],
   fl |-> [k \in 1..Cardinality(s.fl) |->
             <<TableIdx(s, SetToSortSeq(s.fl, <)[k]), TableIdx(s, SetToSortSeq(s.fl, <)[k])>>]]
=============================================================================
