SPECIFICATION Spec
CONSTANTS
  NComp = 2
  NWorlds = 2
  MaxCreate = 2
  MaxBatch = 2
INVARIANTS Inv_C13 Inv_C01 Inv_C02 Inv_C06 Inv_C16
CHECK_DEADLOCK FALSE
