SPECIFICATION Spec
CONSTANTS
  Kinds <- MCKinds
  AllArchs <- MCArchs
  MaxTasks = 3
  DupKeys = TRUE
INVARIANTS NoConflictingOverlap ExactlyOnce SeqEquivalent GreedyParallel
PROPERTY Termination
CHECK_DEADLOCK TRUE
