SPECIFICATION Spec
POSTCONDITION Done
CHECK_DEADLOCK FALSE
