SPECIFICATION Spec
CONSTANTS
  NComp = 2
  NWorlds = 1
  MaxCreate = 2
  MaxBatch = 2
INVARIANTS Inv_RoundTrip Inv_C11 Inv_C11_Pairs
CHECK_DEADLOCK FALSE
