------------------------------- MODULE Borrow -------------------------------
(***************************************************************************)
(* Which programs the type system must refuse (C14).                        *)
(* A program is abstracted to the set of references it holds simultaneously: *)
(*   [target, mode ("imm" | "mut")]  obtained through an API position, and   *)
(* to the payload kinds it makes reachable from a second thread.             *)
(* MustReject(p) <=> two simultaneously live references to one target, one   *)
(* of them mutable;  or a component / resource that is not in the registry;  *)
(* or a payload reachable from another thread by shared reference that is    *)
(* not Sync, or by value / mutable reference that is not Send.               *)
(* The module enumerates the finite program family (Cases) and labels each   *)
(* case; the generator turns every case into a Rust program, rustc is the    *)
(* implementation under test, TraceBorrow compares its verdicts with the     *)
(* labels.  Every rejecting case has a conflict-free control (same shape,    *)
(* different targets / Send+Sync payload / sequential use) that must compile.*)
(***************************************************************************)
EXTENDS Naturals, Sequences, FiniteSets, TLC, Json

Kinds == {"ref", "mut", "optref", "optmut"}
Mode(k) == IF k \in {"mut", "optmut"} THEN "mut" ELSE "imm"
(* two live references [t1, m1], [t2, m2] *)
Aliasing(t1, m1, t2, m2) == t1 = t2 /\ (m1 = "mut" \/ m2 = "mut")

PairCases(fam) == {[fam |-> fam, k1 |-> k1, k2 |-> k2, same |-> s, api |-> "-", payload |-> "-"] :
                     k1 \in Kinds, k2 \in Kinds, s \in BOOLEAN}
(* the same pairs with an entity::Identifier view written before / after the component views of the
   iterator view list (api carries the placement): the verdict must not depend on where a
   non-component view is written *)
Placements == {"id_first", "id_last", "id_mid"}
PlacedCases(fam) == {[fam |-> fam, k1 |-> k1, k2 |-> k2, same |-> s, api |-> pl, payload |-> "-"] :
                     k1 \in Kinds, k2 \in Kinds, s \in BOOLEAN, pl \in Placements}
ResCases == {[fam |-> "rr", k1 |-> k1, k2 |-> k2, same |-> s, api |-> "-", payload |-> "-"] :
               k1 \in {"ref", "mut"}, k2 \in {"ref", "mut"}, s \in BOOLEAN}
RepCases == {[fam |-> "rep", k1 |-> k1, k2 |-> k2, same |-> s, api |-> a, payload |-> "-"] :
               k1 \in {"ref", "mut"}, k2 \in {"ref", "mut"}, s \in BOOLEAN,
               a \in {"world_entry", "entries_entry", "two_entries"}}
OutCases == {[fam |-> "out", k1 |-> "-", k2 |-> "-", same |-> s, api |-> a, payload |-> "-"] :
               s \in BOOLEAN, a \in {"insert", "query", "entry_add", "resource_get", "entry_views"}}
ThreadApis == {"move_world", "share_world", "move_iter", "move_iter_mut", "move_entries", "share_entries",
               "par_query", "par_query_mut", "schedule", "schedule_res", "move_world_res"}
ThrCases == {[fam |-> "thr", k1 |-> "-", k2 |-> "-", same |-> FALSE, api |-> a, payload |-> p] :
               a \in ThreadApis, p \in {"ok", "nosend", "nosync"}}
QResCases == {[fam |-> "qr", k1 |-> k1, k2 |-> k2, same |-> s, api |-> "-", payload |-> "-"] :
               k1 \in {"ref", "mut"}, k2 \in {"ref", "mut"}, s \in BOOLEAN}
(* sub-view k2 taken from a declared entry (super) view k1 on the same component: the sub-view must
   not be stronger than the super-view *)
SubCases == {[fam |-> "sub", k1 |-> k1, k2 |-> k2, same |-> TRUE, api |-> "-", payload |-> "-"] :
               k1 \in Kinds, k2 \in Kinds}
Cases == PairCases("vv") \cup PairCases("ve") \cup PairCases("ee") \cup PairCases("pv") \cup PairCases("sv")
         \cup PlacedCases("vv") \cup PlacedCases("ve") \cup PlacedCases("pv") \cup PlacedCases("sv")
         \cup ResCases \cup QResCases \cup SubCases \cup RepCases \cup OutCases \cup ThrCases

(* how the payload is reached from the other thread by each API *)
ByShared(api) == api \in {"share_world", "move_iter", "move_entries", "share_entries", "par_query", "schedule", "schedule_res"}
IsSend(p) == p \in {"ok", "nosync"}
IsSync(p) == p = "ok"

MustReject(c) ==
  CASE c.fam \in {"vv", "ve", "ee", "rr", "pv", "sv", "qr"} -> c.same /\ Aliasing("A", Mode(c.k1), "A", Mode(c.k2))
    [] c.fam = "sub" -> Mode(c.k2) = "mut" /\ Mode(c.k1) = "imm"
    [] c.fam = "rep" -> c.same /\ Aliasing("A", Mode(c.k1), "A", Mode(c.k2))   \* both results used together
    [] c.fam = "out" -> c.same          \* same = TRUE: the type is NOT in the registry / resources
    [] c.fam = "thr" -> IF ByShared(c.api) THEN ~IsSync(c.payload) ELSE ~IsSend(c.payload)
(* a control: nothing conflicts, the program must be accepted (otherwise the generator is wrong) *)
MustCompile(c) ==
  CASE c.fam \in {"vv", "ve", "ee", "rr", "pv", "sv", "qr"} -> ~c.same
    [] c.fam = "sub" -> ~(Mode(c.k2) = "mut" /\ Mode(c.k1) = "imm")
    [] c.fam = "rep" -> ~c.same         \* same = FALSE: the first result is dropped before the second query
    [] c.fam = "out" -> ~c.same
    [] c.fam = "thr" -> c.payload = "ok"
Label(c) == IF MustReject(c) THEN "reject" ELSE IF MustCompile(c) THEN "compile" ELSE "either"

CaseId(c) == c.fam \o "_" \o c.api \o "_" \o c.k1 \o "_" \o c.k2 \o "_" \o (IF c.same THEN "same" ELSE "diff") \o "_" \o c.payload
Emit == \A c \in Cases : PrintT(<<"CASE", CaseId(c), Label(c), ToJson(c)>>)
=============================================================================
