----------------------------- MODULE MCParSplit -----------------------------
EXTENDS ParSplit
MCKinds3 == <<"slice_mut", "repeat", "slice">>
MCKinds2 == <<"repeat", "slice_mut">>
=============================================================================
