---------------------------- MODULE TraceBorrow ----------------------------
(* C14: the compiler's verdict on every generated program against the label Borrow.tla gives its case. *)
EXTENDS Borrow, Integers, IOUtils
Rec == ndJsonDeserialize(IOEnv.TRACE)
NRec == Len(Rec)
VARIABLES l, seen
vars == <<l, seen>>
E == Rec[l]
Chk(prop, name, cond) == IF cond THEN TRUE ELSE PrintT(<<"FAIL", prop, l, name, l>>)
Step ==
  /\ l <= NRec /\ l' = l + 1
  /\ Chk("C14", "conflicting-or-thread-unsafe-program-accepted", MustReject(E.case) => E.verdict = "rejected")
  /\ Chk("HARNESS", "conflict-free-control-rejected", MustCompile(E.case) => E.verdict = "accepted")
  /\ Chk("HARNESS", "compiler-crashed", ~E.ice)
  /\ seen' = seen \cup {E.case}
Init == l = 1 /\ seen = {}
Spec == Init /\ [][Step]_vars
Complete == l = NRec + 1 => Chk("HARNESS", "program-family-incomplete", Cases \subseteq seen)
Done == /\ PrintT(<<"CONSUMED", TLCGet("stats").diameter - 1, NRec>>)
        /\ TLCGet("stats").diameter - 1 = NRec
=============================================================================
