----------------------------- MODULE TracePanic -----------------------------
(***************************************************************************)
(* Trace validation of fault-injection scenarios (C17).                     *)
(* A scenario =  begin (setup ledger) ; fault (the operation with one        *)
(* injected panic) ; touch (read everything still reachable) ; dropped       *)
(* (every world dropped).  PanicSafe weakens "dropped exactly once" to "at   *)
(* most once": leaks after a panic are accepted, but no value may be dropped *)
(* twice, no user code may be called on a dropped value, no dropped value may *)
(* remain reachable, no freed or corrupt memory may be touched, the allocator *)
(* protocol must hold, the panic must reach the caller, and the worlds must   *)
(* be droppable afterwards.                                                   *)
(***************************************************************************)
EXTENDS Naturals, Integers, Sequences, FiniteSets, TLC, Json, IOUtils

Rec == ndJsonDeserialize(IOEnv.TRACE)
NRec == Len(Rec)
Tokened == {"S", "W", "H", "RA", "RB", "RC"}
Counted == {"Z", "B"}
Creates == {"new", "clone", "deser"}

VARIABLES l, cur, created, dropped, cnt, heap
vars == <<l, cur, created, dropped, cnt, heap>>
E == Rec[l]
Chk(name, cond) == IF cond THEN TRUE ELSE PrintT(<<"FAIL", "C17", l, name, cur>>)

Led == E.led
LedT(kinds) == {<<Led[k].c, Led[k].t>> : k \in {k \in DOMAIN Led : Led[k].k \in kinds /\ Led[k].c \in Tokened}}
LedN(kinds, c) == Cardinality({k \in DOMAIN Led : Led[k].k \in kinds /\ Led[k].c = c})
NDropsT == Cardinality({k \in DOMAIN Led : Led[k].k = "drop" /\ Led[k].c \in Tokened})
CntNext == [c \in Counted |-> cnt[c] + LedN(Creates, c) - LedN({"drop"}, c)]

LedgerChecks ==
  /\ Chk("value-dropped-twice", LedT({"drop"}) \cap dropped = {} /\ NDropsT = Cardinality(LedT({"drop"})))
  /\ Chk("drop-of-a-value-that-was-never-created", LedT({"drop"}) \subseteq created \cup LedT(Creates))
  /\ Chk("more-drops-than-values", \A c \in Counted : CntNext[c] >= 0)
  /\ Chk("corrupt-or-freed-value-seen-by-user-code", \A k \in DOMAIN Led : Led[k].k # "bad")
  /\ Chk("clone-called-on-a-dropped-value",
         \A k \in DOMAIN Led : (Led[k].k = "clone" /\ Led[k].c \in Tokened) => <<Led[k].c, Led[k].f>> \notin dropped)

HeapEvs == IF "heap" \in DOMAIN E THEN E.heap ELSE <<>>
HAllocs == {<<HeapEvs[k].id, HeapEvs[k].s, HeapEvs[k].al>> : k \in {k \in DOMAIN HeapEvs : HeapEvs[k].k = "alloc"}}
           \cup {<<HeapEvs[k].nid, HeapEvs[k].ns, HeapEvs[k].al>> :
                    k \in {k \in DOMAIN HeapEvs : HeapEvs[k].k = "realloc" /\ HeapEvs[k].nid > 0}}
HFreed == {HeapEvs[k].id : k \in {k \in DOMAIN HeapEvs : HeapEvs[k].k \in {"dealloc", "realloc"} /\ HeapEvs[k].id > 0}}
HeapChecks ==
  /\ Chk("free-of-dead-or-unknown-block",
         \A k \in DOMAIN HeapEvs : HeapEvs[k].k \in {"dealloc", "realloc"} => HeapEvs[k].st = "live")
  /\ Chk("free-or-resize-layout-mismatch",
         \A k \in DOMAIN HeapEvs : (HeapEvs[k].k \in {"dealloc", "realloc"} /\ HeapEvs[k].st = "live") =>
             (HeapEvs[k].s = HeapEvs[k].ks /\ HeapEvs[k].al = HeapEvs[k].ka))

Common ==
  /\ LedgerChecks /\ HeapChecks
  /\ created' = created \cup LedT(Creates)
  /\ dropped' = dropped \cup LedT({"drop"})
  /\ cnt' = CntNext
  /\ heap' = {b \in heap \cup HAllocs : b[1] \notin HFreed}

OnBegin ==
  /\ cur' = l
  /\ created' = LedT(Creates) /\ dropped' = {}
  /\ cnt' = [c \in Counted |-> LedN(Creates, c)]
  /\ UNCHANGED heap
OnFault ==
  /\ Chk("panic-did-not-reach-the-caller", E.fired => E.panicked)
  /\ Common /\ UNCHANGED cur
OnTouch ==
  /\ Chk("touching-the-world-after-the-panic-panicked", ~E.panicked)
  /\ Chk("corrupt-or-freed-value-reachable", \A k \in DOMAIN E.worlds : E.worlds[k].bad = 0)
  /\ Chk("dropped-value-still-reachable",
         \A k \in DOMAIN E.worlds : \A j \in DOMAIN E.worlds[k].toks :
            <<E.worlds[k].toks[j][1], E.worlds[k].toks[j][2]>> \notin dropped)
  \* identifiers issued before the operation (world a = worlds[1]) resolved through World::entry:
  \* what an identifier lands on is a row of a table (seen by iteration), and no two land on one value
  /\ LET P == E.probes
         ptoks(k) == {<<P[k].toks[j][1], P[k].toks[j][2]>> : j \in DOMAIN P[k].toks}
         seen == IF Len(E.worlds) >= 1
                 THEN {<<E.worlds[1].toks[j][1], E.worlds[1].toks[j][2]>> : j \in DOMAIN E.worlds[1].toks}
                 ELSE {} IN
     /\ Chk("corrupt-or-freed-value-reached-through-an-identifier", \A k \in DOMAIN P : P[k].bad = 0)
     /\ Chk("identifier-resolves-outside-the-tables", \A k \in DOMAIN P : ptoks(k) \subseteq seen)
     /\ Chk("two-identifiers-resolve-to-one-value",
            \A a, b \in DOMAIN P : a # b => ptoks(a) \cap ptoks(b) = {})
     /\ Chk("dropped-value-reachable-through-an-identifier", \A k \in DOMAIN P : ptoks(k) \cap dropped = {})
  /\ Common /\ UNCHANGED cur
OnDropped ==
  /\ Chk("world-cannot-be-dropped-after-the-panic", ~E.panicked)
  /\ Common /\ UNCHANGED cur
OnCrash ==
  /\ Chk("process-crashed:" \o E.phase, FALSE)
  /\ UNCHANGED <<cur, created, dropped, cnt, heap>>

Step ==
  /\ l <= NRec /\ l' = l + 1
  /\ CASE E.ev = "begin" -> OnBegin
       [] E.ev = "fault" -> OnFault
       [] E.ev = "touch" -> OnTouch
       [] E.ev = "dropped" -> OnDropped
       [] E.ev = "crashed" -> OnCrash

Init == l = 1 /\ cur = 1 /\ created = {} /\ dropped = {} /\ cnt = [c \in Counted |-> 0] /\ heap = {}
Spec == Init /\ [][Step]_vars
Done == /\ PrintT(<<"CONSUMED", TLCGet("stats").diameter - 1, NRec>>)
        /\ TLCGet("stats").diameter - 1 = NRec
=============================================================================
