------------------------------ MODULE TraceRegN ------------------------------
(* Conformance of real worlds over registries of n = 1, 7, 8, 15, 16, 17, 24 components with
   RegN.tla: one recorded case per line (harness/src/regn.rs, regndrv). *)
EXTENDS RegN, Integers, TLC, Json, IOUtils
Rec == ndJsonDeserialize(IOEnv.TRACE)
NRec == Len(Rec)
VARIABLES l
vars == <<l>>
E == Rec[l]
Chk(prop, name, cond) == IF cond THEN TRUE ELSE PrintT(<<"FAIL", prop, l, name, E.n>>)

Rng(s) == {s[k] : k \in DOMAIN s}
TabSet(o) == {<<o.tables[k].bits, o.tables[k].len>> : k \in DOMAIN o.tables}
SameObs(a, b) ==
  /\ a.len = b.len /\ a.counts = b.counts /\ a.alive = b.alive /\ a.place = b.place
  /\ a.slots = b.slots /\ a.free = b.free
  /\ TabSet(a) = TabSet(b) /\ Len(a.tables) = Len(b.tables)

ObsChecks(o, b, n) ==
  /\ Chk("C01", "len", o.len = Cardinality(b.live))
  /\ Chk("C01", "contains", \A e \in DOMAIN o.alive : o.alive[e] = (e \in b.live))
  /\ Chk("C03", "per-component-query-count", \A c \in 0..(n - 1) : o.counts[c + 1][1] = ExpCount(b, c))
  /\ Chk("C03", "per-component-query-values", \A c \in 0..(n - 1) : o.counts[c + 1][2] = ExpSum(b, c))
  /\ Chk("C13", "identifier-location",
         \A e \in DOMAIN o.place : /\ o.place[e].live = (e \in b.live)
                                  /\ (e \in b.live => o.place[e].bits = b.final[e] /\ o.place[e].rowok))
  /\ Chk("C13", "table-set", {o.tables[k].bits : k \in DOMAIN o.tables} = b.tabs
                             /\ Len(o.tables) = Cardinality(b.tabs))
  /\ Chk("C13", "table-rows", \A k \in DOMAIN o.tables : o.tables[k].len = ExpRows(b, o.tables[k].bits))
  /\ Chk("C13", "identifier-width", \A k \in DOMAIN o.tables : o.tables[k].nb = NBytes(n))
  /\ Chk("C13", "allocator", o.slots = b.slots /\ o.free = b.free)

Step ==
  /\ l <= NRec /\ l' = l + 1
  /\ IF E.op = "crashed"
     THEN /\ Chk("C01", "operation-crashed", FALSE) /\ Chk("C05", "process-crashed-in-safe-call", FALSE)
          /\ Chk("C06", "round-trip-crashed", FALSE)
     ELSE IF E.panicked THEN Chk("C01", "operation-panicked", FALSE)
     ELSE
       LET n == E.n
           b == Built(E.masks, E.remcs, E.removes, n)
           r == E.res
           wireOk == \A k \in DOMAIN r.wire : WireAccepts(r.wire[k], n) IN
       /\ ObsChecks(r.pre, b, n)
       /\ Chk("C10", "clone-not-equal", r.clone_eq)
       \* the wire form of the identifiers (json encoding only: the others do not expose it)
       /\ Chk("C06", "identifier-wire-form",
              E.enc # "json" \/ (/\ Len(r.wire) = Cardinality(b.tabs)
                                /\ Rng(r.wire) = {IdBytes(m, n) : m \in b.tabs}))
       \* what was serialized is an accepted input, so deserialization must succeed ...
       /\ Chk("C06", "round-trip-rejected", wireOk => r.ok)
       /\ Chk("C06", "round-trip-not-equal", r.ok => r.eq)
       \* ... and the copy behaves like the original under the same further operations
       /\ Chk("C06", "round-trip-issues-other-identifiers", r.ok => r.same_ids)
       /\ Chk("C06", "round-trip-diverges-later", r.ok => SameObs(r.post, r.post2))
       /\ Chk("C01", "len-after-further-operations",
              r.ok => r.post.len = Cardinality(b.live) + 2 - (IF b.live = {} THEN 0 ELSE 1))
       \* a set padding bit must be refused (there is one iff n % 8 # 0)
       /\ Chk("C11", "padding-bit-accepted", r.pad # "accepted")
       \* so must an identifier of the wrong width (WireAccepts: Len = NBytes(n)) and a repeated table
       /\ Chk("C11", "identifier-of-wrong-width-accepted",
              \A kd \in {"short", "long"} : kd \in DOMAIN r.bad => r.bad[kd] # "accepted")
       /\ Chk("C11", "repeated-table-accepted", "dup" \in DOMAIN r.bad => r.bad["dup"] # "accepted")
       /\ Chk("HARNESS", "padding-case-missing",
              (E.enc = "json" /\ n % 8 # 0 /\ b.tabs # {}) => r.pad # "na")
Init == l = 1
Spec == Init /\ [][Step]_vars
Done == /\ PrintT(<<"CONSUMED", TLCGet("stats").diameter - 1, NRec>>)
        /\ TLCGet("stats").diameter - 1 = NRec
=============================================================================
