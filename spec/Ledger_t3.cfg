SPECIFICATION Spec
CONSTANTS
  NCols = 3
  MaxLen = 3
  MaxVal = 24
  RemoveLen = "shared"
  CloneFromImpl = "vec"
INVARIANTS ExactlyOnce NoLeak NoDangling NoAlias OneLength AbsentEmpty
CHECK_DEADLOCK FALSE
