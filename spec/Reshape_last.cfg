SPECIFICATION Spec
CONSTANTS NComp = 3
 MaxSrc = 3
 MaxDst = 2
 Design = "last"
INVARIANT Consistent
INVARIANT ExactlyOnce
INVARIANT Moved
CHECK_DEADLOCK FALSE
