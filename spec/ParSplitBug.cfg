SPECIFICATION Spec
CONSTANTS
  NRows = 5
  ColKinds <- MCKinds3
  RepeatRight = "index"
INVARIANTS EveryRowOnce NeverTwice SlicesAgree
CHECK_DEADLOCK FALSE
