----------------------------- MODULE TraceWorld -----------------------------
(***************************************************************************)
(* Trace validation of real brood `World`s against the reference map        *)
(* (WorldAbs reading), the structural store invariant (StoreInv), the       *)
(* identifier discipline, the value ledger, resource addressing and         *)
(* equality soundness.                                                      *)
(*                                                                         *)
(* One ndjson line = one public call on some world, followed by a full      *)
(* observation of every live world.  The pre-state of a step is the         *)
(* observation logged by the previous line, the post-state is the           *)
(* observation logged by this line; each step checks the relation           *)
(*      pre  --op(args, results)-->  post                                   *)
(* that the properties demand.  The checker runs in REPORT MODE: a step is  *)
(* always taken and each failed predicate prints                            *)
(*      <<"FAIL", property, line, check-name>>                              *)
(* so one pass gives independent verdicts for all properties that share the *)
(* trace and a failure does not leave the rest of the trace unexamined.     *)
(***************************************************************************)
EXTENDS Naturals, Integers, Sequences, FiniteSets, TLC, Json, IOUtils, StoreInv, Access

Rec == ndJsonDeserialize(IOEnv.TRACE)
NRec == Len(Rec)
MAXW == 3
Worlds == 1..MAXW

CompSeq == <<"Z", "B", "S", "W", "H", "T5", "T6", "T7", "T8">>   \* registry order: bit k-1 = CompSeq[k]
NC == Len(CompSeq)
Comps == {CompSeq[k] : k \in 1..NC}
Tokened == (Comps \ {"Z", "B"}) \cup {"RA", "RB", "RC"}
Counted == {"Z", "B"}
ResNames == {"RA", "RB", "RC"}
ResSeq == <<"RA", "RB", "RC">>

Rng(s) == {s[i] : i \in DOMAIN s}

(* what a value of component c looks like after storing v *)
Norm(c, v) == IF c = "Z" THEN 0 ELSE IF c = "B" THEN v % 251 ELSE v

(* component set encoded by identifier bits *)
RECURSIVE BitSet(_, _)
BitSet(bits, k) == IF k > NC THEN {}
                   ELSE (IF bits % 2 = 1 THEN {CompSeq[k]} ELSE {}) \cup BitSet(bits \div 2, k + 1)
CompsOfBits(bits) == BitSet(bits, 1)

VARIABLES l,        \* next line to consume
          issued,   \* issued[w]: identifiers ever issued in the lineage of world w
          tok,      \* ledger: live individually identified values <<name, token>>
          cnt,      \* ledger: number of live Z and B values
          twin,     \* twin[w]: world that must behave identically to w (0: none)
          heap      \* blocks allocated inside library calls and not yet released: <<id, size, align>>
vars == <<l, issued, tok, cnt, twin, heap>>

Chk(prop, name, cond) == IF cond THEN TRUE ELSE PrintT(<<"FAIL", prop, l, name, Rec[l].op>>)

DeadW == [live |-> FALSE]
PreWs  == IF l = 1 THEN [w \in Worlds |-> DeadW] ELSE Rec[l - 1].obs.ws
PostWs == Rec[l].obs.ws
E == Rec[l]

Live(ws, w) == ws[w].live
(* abstract content: identifier -> component -> [v, t] *)
Ents(wo) == IF wo.live THEN wo.ents ELSE <<>>
ValOnly(rec) == [c \in DOMAIN rec |-> rec[c].v]
Vals(ents) == [id \in DOMAIN ents |-> ValOnly(ents[id])]
ResOf(wo) == wo.res
ResVals(wo) == [r \in ResNames |-> wo.res[r].v]

OrderComps(order) == {CompSeq[order[k] + 1] : k \in DOMAIN order}
RowVals(order, vals) == [c \in OrderComps(order) |->
                           Norm(c, vals[(CHOOSE k \in 1..NC : CompSeq[k] = c)])]

-----------------------------------------------------------------------------
(* Ledger                                                                    *)
Creates == {"new", "clone", "deser"}
LedT(kinds) == {<<E.led[k].c, E.led[k].t>> : k \in {k \in DOMAIN E.led :
                                 E.led[k].k \in kinds /\ E.led[k].c \in Tokened}}
LedN(kinds, c) == Cardinality({k \in DOMAIN E.led : E.led[k].k \in kinds /\ E.led[k].c = c})
NDropsT == Cardinality({k \in DOMAIN E.led : E.led[k].k = "drop" /\ E.led[k].c \in Tokened})
NCreatesT == Cardinality({k \in DOMAIN E.led : E.led[k].k \in Creates /\ E.led[k].c \in Tokened})
TokNext == (tok \cup LedT(Creates)) \ LedT({"drop"})
CntNext == [c \in Counted |-> cnt[c] + LedN(Creates, c) - LedN({"drop"}, c)]

(* every individually identified value reachable in the observed worlds *)
TokOccur(ws) ==   \* set of <<place, name, token>>
  UNION {
    ( UNION { {<<w, id, c, Ents(ws[w])[id][c].t>> :
                 c \in (DOMAIN Ents(ws[w])[id]) \cap Tokened} : id \in DOMAIN Ents(ws[w]) } )
    \cup {<<w, "res", r, ws[w].res[r].t>> : r \in ResNames}
    : w \in {w \in Worlds : ws[w].live} }
TokSet(ws) == {<<o[3], o[4]>> : o \in TokOccur(ws)}
CntOf(ws, c) ==
  LET per(w) == Cardinality({id \in DOMAIN Ents(ws[w]) : c \in DOMAIN Ents(ws[w])[id]})
      f[k \in 0..MAXW] == IF k = 0 THEN 0 ELSE f[k - 1] + (IF ws[k].live THEN per(k) ELSE 0)
  IN f[MAXW]

(* values built by a deserialization attempt that returns an error are not owned by any world;
   whether they are released is outside the properties (reported as INFO, never as a failure) *)
FailedDeser == E.op \in {"deser_mut", "deser_struct"} /\ ~E.res.ok
LeakProp == IF FailedDeser THEN "INFO" ELSE "C04"
LedgerChecks ==
  /\ Chk("C04", "drop-of-value-not-alive", LedT({"drop"}) \subseteq (tok \cup LedT(Creates)))
  /\ Chk("C04", "value-dropped-twice-in-one-call", NDropsT = Cardinality(LedT({"drop"})))
  /\ Chk("C04", "token-created-twice", NCreatesT = Cardinality(LedT(Creates))
                                        /\ LedT(Creates) \cap tok = {})
  /\ Chk("C04", "counted-drop-underflow", \A c \in Counted : CntNext[c] >= 0)
  /\ Chk("C04", "value-aliased-in-worlds",
            Cardinality(TokOccur(PostWs)) = Cardinality(TokSet(PostWs)))
  /\ Chk(LeakProp, "leak-or-premature-drop(tokened)", TokNext = TokSet(PostWs))
  /\ Chk(LeakProp, "leak-or-premature-drop(Z)", CntNext["Z"] = CntOf(PostWs, "Z"))
  /\ Chk(LeakProp, "leak-or-premature-drop(B)", CntNext["B"] = CntOf(PostWs, "B"))
  /\ Chk("C04", "premature-drop-during-failed-deserialization",
         FailedDeser => TokSet(PostWs) \subseteq TokNext)
  /\ Chk("C05", "corrupt-value-at-drop", \A k \in DOMAIN E.led : E.led[k].k # "bad")

-----------------------------------------------------------------------------
(* Allocation protocol (C05).  E.heap lists, in order, the allocator calls made inside library    *)
(* calls and every later call on a block allocated inside a library call; `st`, `ks`, `ka` are   *)
(* what the recorder's book says about the block (live / dead / unknown, size and alignment it   *)
(* was allocated with).                                                                           *)
HeapEvs == IF "heap" \in DOMAIN E THEN E.heap ELSE <<>>
HAllocs == {<<HeapEvs[k].id, HeapEvs[k].s, HeapEvs[k].al>> : k \in {k \in DOMAIN HeapEvs : HeapEvs[k].k = "alloc"}}
           \cup {<<HeapEvs[k].nid, HeapEvs[k].ns, HeapEvs[k].al>> :
                    k \in {k \in DOMAIN HeapEvs : HeapEvs[k].k = "realloc" /\ HeapEvs[k].nid > 0}}
HFreed == {HeapEvs[k].id : k \in {k \in DOMAIN HeapEvs : HeapEvs[k].k \in {"dealloc", "realloc"} /\ HeapEvs[k].id > 0}}
HeapNext == IF E.op \in {"deser_mut", "deser_struct"} /\ ~E.res.ok
            THEN {b \in heap : b[1] \notin HFreed}     \* blocks of a failed attempt belong to no world
            ELSE {b \in heap \cup HAllocs : b[1] \notin HFreed}
HeapChecks ==
  /\ Chk("C05", "free-of-dead-or-unknown-block",
         \A k \in DOMAIN HeapEvs : HeapEvs[k].k \in {"dealloc", "realloc"} => HeapEvs[k].st = "live")
  /\ Chk("C05", "free-or-resize-layout-mismatch",
         \A k \in DOMAIN HeapEvs : (HeapEvs[k].k \in {"dealloc", "realloc"} /\ HeapEvs[k].st = "live") =>
             (HeapEvs[k].s = HeapEvs[k].ks /\ HeapEvs[k].al = HeapEvs[k].ka))
  /\ Chk("C05", "free-of-untraced-library-block",
         \A k \in DOMAIN HeapEvs : (HeapEvs[k].k \in {"dealloc", "realloc"} /\ HeapEvs[k].id > 0 /\ HeapEvs[k].st = "live") =>
             (\E b \in heap \cup HAllocs : b[1] = HeapEvs[k].id /\ b[2] = HeapEvs[k].ks) \/ "untraced" \in DOMAIN E)
  /\ Chk("C05", "block-allocated-twice", Cardinality({b[1] : b \in HAllocs}) = Cardinality(HAllocs)
                                          /\ {b[1] : b \in HAllocs} \cap {b[1] : b \in heap} = {})
  /\ Chk("C05", "memory-not-returned-at-world-drop",
         E.op = "reset" => HeapNext = {})

-----------------------------------------------------------------------------
(* Checks evaluated on every live world after every event                    *)
NoBad(wo) == \A k \in DOMAIN wo.ents : \A c \in DOMAIN wo.ents[k] :
                "bad" \notin DOMAIN wo.ents[k][c]
ResNoBad(wo) == \A r \in ResNames : "bad" \notin DOMAIN wo.res[r]

(* a structural failure is reported by the operation that causes it, not by every later one *)
PreBroken(w, k) == PreWs[w].live /\ ~Checks(PreWs[w].dump)[k][2]

WorldChecks(w) ==
  LET wo == PostWs[w]
      ents == Ents(wo)
      d == wo.dump
      sc == Checks(d)
  IN
  /\ Chk("C01", "entity-listed-twice", Cardinality(DOMAIN ents) = wo.nents)
  /\ Chk("C01", "len", wo.len = Cardinality(DOMAIN ents))
  /\ Chk("C01", "is_empty", wo.empty = (Cardinality(DOMAIN ents) = 0))
  /\ Chk("C02", "contains", \A id \in DOMAIN wo.probes :
                               wo.probes[id].con = (id \in DOMAIN ents))
  /\ Chk("C02", "entry", \A id \in DOMAIN wo.probes :
                               wo.probes[id].ent = (id \in DOMAIN ents))
  /\ Chk("C02", "entries-entry", \A id \in DOMAIN wo.probes :
                               wo.probes[id].ee = (id \in DOMAIN ents))
  /\ Chk("HARNESS", "probes-cover-issued", issued'[w] \subseteq DOMAIN wo.probes)
  /\ Chk("C02", "identifier-resolves-to-another-entity",
         \A id \in (DOMAIN wo.probes) \cap (DOMAIN ents) :
            wo.probes[id].via = [c \in (DOMAIN ents[id]) \cap {"S", "W", "H"} |-> ents[id][c].t])
  /\ Chk("C02", "live-id-not-issued", DOMAIN ents \subseteq issued'[w])
  /\ \A k \in DOMAIN sc : Chk("C13", sc[k][1], sc[k][2] \/ PreBroken(w, k))
  \* an identifier resolves to the row its slot points at: the storage-level reading of C02
  /\ Chk("C02", "identifier-location-points-at-another-row",
         (SlotToRow(d) /\ RowToSlot(d)) \/ PreBroken(w, 3) \/ PreBroken(w, 4))
  \* lookup tables and locations must not outlive the identifier buffers they point at (C05)
  /\ Chk("C05", "reference-to-freed-identifier-buffer",
         (LookupTargets(d) /\ \A i \in Active(d) : Slot(d, i).t >= 0) \/ PreBroken(w, 12))
  /\ Chk("C13", "len-vs-dump", d.len = wo.len)
  /\ Chk("C13", "stored-ids=public-ids", StoredIds(d) = DOMAIN ents)
  /\ Chk("C13", "accepted-ids=public-ids", AcceptedIds(d) = DOMAIN ents)
  /\ Chk("C13", "row-in-table-of-its-component-set",
            \A id \in (DOMAIN ents) \cap StoredIds(d) :
               CompsOfBits(d.tables[BitsOf(d, id)].bits) = DOMAIN ents[id])
  /\ Chk("C05", "corrupt-value-read", NoBad(wo) /\ ResNoBad(wo))

(* equality: reflexive, symmetric, and eq => same abstract content *)
AbsEq(a, b) == /\ Vals(Ents(a)) = Vals(Ents(b))
               /\ ResVals(a) = ResVals(b)
EqChecks ==
  \A a \in Worlds : \A b \in Worlds :
     (PostWs[a].live /\ PostWs[b].live) =>
        /\ Chk("C16", "reflexive", a = b => PostWs[a].eq[b])
        /\ Chk("C16", "symmetric", PostWs[a].eq[b] = PostWs[b].eq[a])
        /\ Chk("C16", "eq-implies-same-content", PostWs[a].eq[b] => AbsEq(PostWs[a], PostWs[b]))

(* worlds an operation does not touch are completely unchanged *)
Untouched(w) ==
  IF PreWs[w].live
  THEN /\ Chk("C10", "untouched-world-still-live", PostWs[w].live)
       /\ PostWs[w].live =>
            /\ Chk("C10", "untouched-world-content", Ents(PostWs[w]) = Ents(PreWs[w]))
            /\ Chk("C10", "untouched-world-store", PostWs[w].dump = PreWs[w].dump)
            /\ Chk("C15", "untouched-world-resources", PostWs[w].res = PreWs[w].res)
  ELSE Chk("C10", "dead-world-stays-dead", ~PostWs[w].live)

ResSame(w) == Chk("C15", "resources-unchanged-by-entity-op", PostWs[w].res = PreWs[w].res)

-----------------------------------------------------------------------------
(* Per-operation relations.  pre / post are the abstract contents of E.w.    *)
Pre  == Ents(PreWs[E.w])
Post == Ents(PostWs[E.w])
OthersSame(except) ==
  Chk("C01", "other-entities-changed",
      \A id \in (DOMAIN Pre) \ except : id \in DOMAIN Post /\ Post[id] = Pre[id])

OpInsert ==
  LET id == E.res.id
      want == RowVals(E.order, E.vals) IN
  /\ Chk("C02", "insert-returned-old-id", id \notin issued[E.w])
  /\ Chk("C01", "new-entity-got-the-identifier-of-an-earlier-entity", id \notin issued[E.w])
  /\ Chk("C01", "insert-live-set", DOMAIN Post = (DOMAIN Pre) \cup {id})
  /\ OthersSame({id})
  /\ Chk("C01", "insert-components", id \in DOMAIN Post /\ ValOnly(Post[id]) = want)
  /\ ResSame(E.w)
  /\ issued' = [issued EXCEPT ![E.w] = @ \cup {id}]

(* a batch built from columns (Batch::new) has as many rows as its columns; with no column it has
   none.  A batch written with the entities! macro ("form") states its rows itself: n for
   `entities!((..); n)`, one per tuple for `entities!((..), (..))` -- also when the tuples are empty. *)
EffRows == IF E.order = <<>> /\ "form" \notin DOMAIN E THEN <<>> ELSE E.rows
OpExtend ==
  LET ids == E.res.ids
      rows == EffRows IN
  /\ Chk("C01", "extend-one-id-per-row", Len(ids) = Len(rows))
  /\ Chk("C02", "extend-ids-distinct", Cardinality(Rng(ids)) = Len(ids))
  /\ Chk("C02", "extend-returned-old-id", Rng(ids) \cap issued[E.w] = {})
  /\ Chk("C01", "new-entity-got-the-identifier-of-an-earlier-entity", Rng(ids) \cap issued[E.w] = {})
  /\ Chk("C01", "extend-live-set", DOMAIN Post = (DOMAIN Pre) \cup Rng(ids))
  /\ OthersSame(Rng(ids))
  /\ Chk("C01", "extend-row-order",
         \A k \in DOMAIN ids : k \in DOMAIN rows =>
            /\ ids[k] \in DOMAIN Post
            /\ ValOnly(Post[ids[k]]) = RowVals(E.order, rows[k]))
  /\ ResSame(E.w)
  /\ issued' = [issued EXCEPT ![E.w] = @ \cup Rng(ids)]

(* a batch whose columns have different lengths, built through the safe constructor: must be
   refused (panic) and leave the world untouched *)
OpExtendRagged ==
  /\ Chk("C18", "ragged-batch-accepted-by-safe-constructor", E.res.rejected)
  /\ Chk("C05", "ragged-columns-reached-the-store", E.res.rejected)
  /\ Chk("C01", "rejected-batch-changed-the-world", E.res.rejected => Post = Pre)
  /\ ResSame(E.w)
  /\ issued' = [issued EXCEPT ![E.w] = @ \cup (IF "ids" \in DOMAIN E.res THEN Rng(E.res.ids) ELSE {})]

OpRemove ==
  /\ IF E.id \in DOMAIN Pre
     THEN /\ Chk("C01", "remove-live-set", DOMAIN Post = (DOMAIN Pre) \ {E.id})
          /\ OthersSame({E.id})
     ELSE /\ Chk("C02", "remove-of-dead-id-changed-world", Post = Pre)
          /\ Chk("C02", "remove-of-dead-id-changed-store", PostWs[E.w].dump = PreWs[E.w].dump)
  /\ ResSame(E.w)
  /\ UNCHANGED issued

OpClear ==
  /\ Chk("C01", "clear-live-set", DOMAIN Post = {})
  /\ ResSame(E.w)
  /\ UNCHANGED issued

(* one Entry::add / Entry::remove applied to an abstract content *)
AbsAdd(ents, id, c, v) ==
  [ents EXCEPT ![id] = [x \in (DOMAIN ents[id]) \cup {c} |->
                          IF x = c THEN Norm(c, v) ELSE ents[id][x]]]
AbsRem(ents, id, c) ==
  [ents EXCEPT ![id] = [x \in (DOMAIN ents[id]) \ {c} |-> ents[id][x]]]

EntryFound == Chk("C02", "entry-resolution", E.res.found = (E.id \in DOMAIN Pre))
KeepTokens(id, changed) ==
  \* components of the target that the op does not write keep their identity
  Chk("C01", "entry-op-replaced-untouched-value",
      (id \in DOMAIN Pre /\ id \in DOMAIN Post) =>
         \A c \in ((DOMAIN Pre[id]) \cap (DOMAIN Post[id])) \ changed : Post[id][c] = Pre[id][c])

OpAdd ==
  LET c == CompSeq[E.c + 1] IN
  /\ EntryFound
  /\ IF E.id \in DOMAIN Pre
     THEN /\ Chk("C01", "add-result", Vals(Post) = AbsAdd(Vals(Pre), E.id, c, E.v))
          /\ OthersSame({E.id})
          /\ KeepTokens(E.id, {c})
     ELSE Chk("C02", "add-on-dead-id-changed-world", Post = Pre)
  /\ ResSame(E.w)
  /\ UNCHANGED issued

OpRemc ==
  LET c == CompSeq[E.c + 1] IN
  /\ EntryFound
  /\ IF E.id \in DOMAIN Pre
     THEN /\ Chk("C01", "remove-component-result", Vals(Post) = AbsRem(Vals(Pre), E.id, c))
          /\ OthersSame({E.id})
          /\ KeepTokens(E.id, {c})
     ELSE Chk("C02", "remove-component-on-dead-id-changed-world", Post = Pre)
  /\ ResSame(E.w)
  /\ UNCHANGED issued

OpAdd2 ==
  LET c1 == CompSeq[E.c + 1]
      c2 == CompSeq[E.c2 + 1]
      step(ents, c, rm) == IF rm THEN AbsRem(ents, E.id, c) ELSE AbsAdd(ents, E.id, c, E.v) IN
  /\ EntryFound
  /\ IF E.id \in DOMAIN Pre
     THEN /\ Chk("C01", "entry-two-shape-changes",
                 Vals(Post) = step(step(Vals(Pre), c1, E.rm[1]), c2, E.rm[2]))
          /\ OthersSame({E.id})
          /\ KeepTokens(E.id, {c1, c2})
     ELSE Chk("C02", "add-on-dead-id-changed-world", Post = Pre)
  /\ ResSame(E.w)
  /\ UNCHANGED issued

OpQmut ==
  LET c == CompSeq[E.c + 1]
      hit == IF E.mode = "all" THEN {id \in DOMAIN Pre : c \in DOMAIN Pre[id]}
             ELSE {id \in {E.id} : id \in DOMAIN Pre /\ c \in DOMAIN Pre[id]}
      want == [id \in DOMAIN Pre |->
                 IF id \in hit
                 THEN [Pre[id] EXCEPT ![c] = [v |-> Norm(c, Pre[id][c].v + E.v), t |-> Pre[id][c].t]]
                 ELSE Pre[id]] IN
  /\ Chk("C03", "mutating-query-visit-count", E.res.n = Cardinality(hit))
  /\ Chk("C03", "mutating-query-effect", Post = want)
  /\ ResSame(E.w)
  /\ UNCHANGED issued

OpNoChange ==   \* reserve, shrink_to_fit
  /\ Chk("C01", "capacity-op-changed-content", Post = Pre)
  /\ ResSame(E.w)
  /\ UNCHANGED issued

SameValuesFreshTokens(src, dst, prop) ==
  /\ Chk(prop, "copy-content", Vals(Ents(PostWs[dst])) = Vals(Ents(PreWs[src])))
  \* the copy accepts exactly the identifiers the source accepts, and they land on the same entities
  /\ Chk(prop, "copy-identifier-resolution",
         PostWs[dst].live =>
            \A id \in (DOMAIN PostWs[dst].probes) \cap (DOMAIN PreWs[src].probes) :
               /\ PostWs[dst].probes[id].con = PreWs[src].probes[id].con
               /\ PostWs[dst].probes[id].ent = PreWs[src].probes[id].ent
               /\ PostWs[dst].probes[id].ee = PreWs[src].probes[id].ee)
  /\ Chk(prop, "copy-structure-broken",
         PostWs[dst].live => (StoreInvHolds(PostWs[dst].dump) \/ ~StoreInvHolds(PreWs[src].dump)))
  /\ Chk(prop, "copy-resources", ResVals(PostWs[dst]) = ResVals(PreWs[src]))
  /\ Chk("C15", "copy-lost-or-altered-a-resource", ResVals(PostWs[dst]) = ResVals(PreWs[src]))
  /\ Chk(prop, "copy-shares-values", TokSet([w \in Worlds |-> IF w = dst THEN PostWs[w] ELSE DeadW])
                                        \cap tok = {})

OpClone ==
  /\ SameValuesFreshTokens(E.w, E.dst, "C10")
  /\ Chk("C10", "clone-not-equal-to-source", PostWs[E.dst].live /\ PostWs[E.dst].eq[E.w] /\ PostWs[E.w].eq[E.dst])
  /\ Chk("C16", "clone-compares-unequal", PostWs[E.dst].live /\ PostWs[E.dst].eq[E.w] /\ PostWs[E.w].eq[E.dst])
  /\ issued' = [issued EXCEPT ![E.dst] = issued[E.w]]

OpCloneFrom ==
  /\ SameValuesFreshTokens(E.src, E.w, "C10")
  /\ issued' = [issued EXCEPT ![E.w] = issued[E.src]]

OpSerde ==
  /\ Chk("C06", "round-trip-failed", E.res.ok)
  /\ IF E.res.ok
     THEN /\ SameValuesFreshTokens(E.w, E.dst, "C06")
          /\ Chk("C06", "round-trip-not-equal", PostWs[E.dst].live /\ PostWs[E.dst].eq[E.w] /\ PostWs[E.w].eq[E.dst])
          /\ Chk("C16", "round-trip-compares-unequal", PostWs[E.dst].live /\ PostWs[E.dst].eq[E.w] /\ PostWs[E.w].eq[E.dst])
          /\ issued' = [issued EXCEPT ![E.dst] = issued[E.w]]
     ELSE UNCHANGED issued

(* C11: world w was serialized, the encoding mutated, and deserialization attempted into slot dst.
   Either an error, or a world that passes every structural and behavioural check from now on. *)
OpDeserMut ==
  /\ IF E.res.ok
     THEN /\ Chk("C11", "ok-but-no-world", PostWs[E.dst].live)
          /\ Chk("C11", "unmodified-input-changed-content",
                 E.res.same => Vals(Ents(PostWs[E.dst])) = Vals(Ents(PreWs[E.w])))
          /\ issued' = [issued EXCEPT ![E.dst] = IF PostWs[E.dst].live THEN DOMAIN Ents(PostWs[E.dst]) ELSE {}]
     ELSE /\ Chk("C11", "error-but-world-returned", ~PostWs[E.dst].live)
          /\ Chk("C11", "unmodified-input-rejected", ~E.res.same)
          /\ UNCHANGED issued
  /\ Chk("C10", "source-changed-by-serialization", Ents(PostWs[E.w]) = Ents(PreWs[E.w]))

OpGetMut ==
  LET r == ResSeq[E.r + 1] IN
  /\ Chk("C15", "get_mut-wrong-resource",
         /\ E.res.got.t = PreWs[E.w].res[r].t
         /\ E.res.got.v = E.v
         /\ PostWs[E.w].res = [PreWs[E.w].res EXCEPT ![r] = [v |-> E.v, t |-> @.t]])
  /\ Chk("C15", "resource-op-changed-entities", Post = Pre)
  /\ UNCHANGED issued

OpViewRes ==
  LET vs == E.res.views
      delta(r) == IF \E k \in DOMAIN vs : vs[k].r = r /\ vs[k].m
                  THEN (CHOOSE k \in DOMAIN vs : vs[k].r = r /\ vs[k].m)
                  ELSE 0
      want == [r \in ResNames |->
                 IF delta(r) = 0 THEN PreWs[E.w].res[r]
                 ELSE [v |-> PreWs[E.w].res[r].v + vs[delta(r)].d, t |-> PreWs[E.w].res[r].t]] IN
  /\ Chk("C15", "view-returned-wrong-resource",
         \A k \in DOMAIN vs : vs[k].got = want[vs[k].r])
  /\ Chk("C15", "view-write-not-visible", PostWs[E.w].res = want)
  /\ Chk("C15", "resource-op-changed-entities", Post = Pre)
  /\ UNCHANGED issued


-----------------------------------------------------------------------------
(* Queries (C03, C09).  E.desc is the query descriptor (Access.tla format):  *)
(*   kind: iter | par | entry | entries | mixed;  views: what is viewed per   *)
(*   component (for `entries` these are the sub-views);  super: the declared  *)
(*   entry views;  sub: sub-views used by `mixed`;  id: identifier view.      *)
VT(x) == [v |-> x.v, t |-> x.t]
ItemVT(it) == [c \in DOMAIN it.c |-> VT(it.c[c])]
ExpItem(vw, rec) == [c \in {c \in Comps : vw[c] # "none" /\ c \in DOMAIN rec} |-> rec[c]]
Written(vw, rec, dv) ==
  [c \in DOMAIN rec |-> IF vw[c] \in {"mut", "optmut"}
                        THEN [v |-> Norm(c, rec[c].v + dv), t |-> rec[c].t] ELSE rec[c]]
QMatch(vw, f, arch) == Eval(f, arch) /\ {c \in Comps : vw[c] \in {"ref", "mut"}} \subseteq arch
QP == IF E.desc.kind = "par" THEN "C09" ELSE "C03"

IterPart(M, items) ==
  LET d == E.desc
      n == Cardinality(M) IN
  /\ Chk(QP, "result-count", Len(items) = n)
  /\ IF d.id
     THEN /\ Chk(QP, "result-identifiers", {items[k].id : k \in DOMAIN items} = M)
          /\ Chk(QP, "result-values",
                 \A k \in DOMAIN items : items[k].id \in M =>
                     ItemVT(items[k]) = ExpItem(d.views, Pre[items[k].id]))
     ELSE Chk(QP, "result-multiset",
              \A k \in DOMAIN items :
                 Cardinality({j \in DOMAIN items : ItemVT(items[j]) = ItemVT(items[k])})
                 = Cardinality({id \in M : ExpItem(d.views, Pre[id]) = ItemVT(items[k])}))
  /\ Chk(QP, "corrupt-value-in-result",
         \A k \in DOMAIN items : \A c \in DOMAIN items[k].c : "bad" \notin DOMAIN items[k].c[c])
  /\ Chk("C09", "two-results-give-mutable-access-to-one-value",
         \A c \in Comps \ {"Z"} :
            LET ks == {k \in DOMAIN items : c \in DOMAIN items[k].c /\ items[k].c[c].m} IN
            Cardinality({items[k].c[c].a : k \in ks}) = Cardinality(ks))

OpQueryIter ==
  LET d == E.desc
      M == {id \in DOMAIN Pre : QMatch(d.views, d.filter, DOMAIN Pre[id])}
      n == Cardinality(M)
      hs == E.res.hints IN
  /\ IterPart(M, E.res.items)
  /\ Chk(QP, "writes-through-views",
         Post = [id \in DOMAIN Pre |-> IF id \in M THEN Written(d.views, Pre[id], E.v) ELSE Pre[id]])
  /\ Chk("C03", "size_hint",
         d.kind = "par" \/ ("st" \in DOMAIN E /\ E.st # 0) \/
         (/\ Len(hs) = n + 1
          /\ \A k \in DOMAIN hs : /\ hs[k][1] <= n - (k - 1)
                                  /\ (hs[k][2] = -1 \/ n - (k - 1) <= hs[k][2])))
  /\ ResSame(E.w)
  /\ UNCHANGED issued

(* single-entity query through World::entry or through query-time Entries *)
OpQueryOne ==
  LET d == E.desc
      live == E.id \in DOMAIN Pre
      hit == live /\ QMatch(d.views, d.filter, DOMAIN Pre[E.id])
      items == E.res.items IN
  /\ Chk("C02", "entry-resolution", E.res.found = live)
  /\ Chk("C03", "single-entity-query-result",
         IF hit
         THEN /\ Len(items) = 1
              /\ ItemVT(items[1]) = ExpItem(d.views, Pre[E.id])
              /\ (d.id => items[1].id = E.id)
         ELSE Len(items) = 0)
  /\ Chk("C03", "single-entity-query-writes",
         Post = [id \in DOMAIN Pre |-> IF hit /\ id = E.id THEN Written(d.views, Pre[id], E.v) ELSE Pre[id]])
  /\ ResSame(E.w)
  /\ UNCHANGED issued

(* iterate with Views while reaching one designated entity through disjoint entry views *)
OpQueryMixed ==
  LET d == E.desc
      M == {id \in DOMAIN Pre : QMatch(d.views, d.filter, DOMAIN Pre[id])}
      reached == M # {} /\ E.id \in DOMAIN Pre
      hit == reached /\ QMatch(d.sub, <<"none">>, DOMAIN Pre[E.id])
      via == E.res.via
      iterw(id) == IF id \in M THEN Written(d.views, Pre[id], E.v) ELSE Pre[id] IN
  /\ IterPart(M, E.res.items)
  /\ Chk("C02", "entries-entry-resolution", E.res.found = reached)
  /\ Chk("C03", "entry-views-during-iteration",
         IF hit THEN Len(via) = 1 /\ ItemVT(via[1]) = ExpItem(d.sub, Pre[E.id]) ELSE Len(via) = 0)
  /\ Chk("C03", "writes-through-views-and-entry-views",
         Post = [id \in DOMAIN Pre |->
                   IF hit /\ id = E.id THEN Written(d.sub, iterw(id), E.v) ELSE iterw(id)])
  /\ ResSame(E.w)
  /\ UNCHANGED issued

OpQuery ==
  CASE E.desc.kind \in {"iter", "par"} -> OpQueryIter
    [] E.desc.kind \in {"entry", "entries"} -> OpQueryOne
    [] E.desc.kind = "mixed" -> OpQueryMixed

-----------------------------------------------------------------------------
(* SPEC-DRIFT: the strict, implementation-shaped model (WorldStore) applied to the previous dump    *)
(* must give the next dump (slots, free list in order, identifier columns in order, both lookups,   *)
(* len).  A disagreement is not a property violation (policy is free); it means the exhaustive      *)
(* model-checking result of MCWorld no longer speaks for this code, and is reported as DRIFT.       *)
WS == INSTANCE WorldStore WITH NComp <- 9
StoreOfDump(d) ==
  LET bitsOf(t) == d.tables[t + 1].bits
      keys == {d.tables[k].bits : k \in DOMAIN d.tables} IN
  [slots |-> [i \in DOMAIN d.slots |->
                [g |-> d.slots[i].g,
                 loc |-> IF d.slots[i].a /\ d.slots[i].t >= 0 /\ d.slots[i].t < Len(d.tables)
                         THEN [t |-> bitsOf(d.slots[i].t), r |-> d.slots[i].r] ELSE WS!NoLoc]],
   free |-> d.free,
   tables |-> [b \in keys |->
                 LET t == d.tables[CHOOSE k \in DOMAIN d.tables : d.tables[k].bits = b] IN
                 [ids |-> t.idg, cols |-> [c \in WS!CompsOf(b) |-> t.idg]]],
   tl |-> {bitsOf(d.tl[k]) : k \in {k \in DOMAIN d.tl : d.tl[k] >= 0 /\ d.tl[k] < Len(d.tables)}},
   fl |-> {bitsOf(d.fl[k][2]) : k \in {k \in DOMAIN d.fl : d.fl[k][2] >= 0 /\ d.fl[k][2] < Len(d.tables)}},
   len |-> d.len]
ShapeEq(a, b) ==
  /\ a.slots = b.slots /\ a.free = b.free /\ a.tl = b.tl /\ a.fl = b.fl /\ a.len = b.len
  /\ DOMAIN a.tables = DOMAIN b.tables
  /\ \A k \in (DOMAIN a.tables) \cap (DOMAIN b.tables) : a.tables[k].ids = b.tables[k].ids
RECURSIVE BitsOfOrder(_)
BitsOfOrder(order) == IF order = <<>> THEN 0 ELSE 2 ^ Head(order) + BitsOfOrder(Tail(order))
Dummy(bits) == [c \in WS!CompsOf(bits) |-> <<0, 0>>]
PreStore(w) == IF PreWs[w].live THEN StoreOfDump(PreWs[w].dump) ELSE WS!EmptyStore
PostStore(w) == StoreOfDump(PostWs[w].dump)
StrictNext ==
  LET s == PreStore(E.w) IN
  CASE E.op = "new" -> WS!EmptyStore
    [] E.op = "insert" -> WS!Insert(s, BitsOfOrder(E.order), Dummy(BitsOfOrder(E.order))).s
    [] E.op = "extend" -> WS!Extend(s, BitsOfOrder(E.order),
                                    [k \in 1..Len(EffRows) |-> Dummy(BitsOfOrder(E.order))]).s
    [] E.op = "remove" -> WS!RemoveEntity(s, E.idp)
    [] E.op = "clear" -> WS!Clear(s, [k \in DOMAIN PreWs[E.w].dump.tables |-> PreWs[E.w].dump.tables[k].bits])
    [] E.op = "add" -> WS!EntryAdd(s, E.idp, E.c, <<0, 0>>)
    [] E.op = "remc" -> WS!EntryRemove(s, E.idp, E.c)
    [] E.op = "add2" ->
         LET st(x, c, rm) == IF rm THEN WS!EntryRemove(x, E.idp, c) ELSE WS!EntryAdd(x, E.idp, c, <<0, 0>>) IN
         st(st(s, E.c, E.rm[1]), E.c2, E.rm[2])
    [] E.op = "reserve" -> WS!Reserve(s, BitsOfOrder(E.order))
    [] E.op = "shrink" -> WS!ShrinkToFit(s)
    [] E.op = "clone_from" -> WS!CloneFrom(s, PreStore(E.src))
    [] OTHER -> s
DriftTarget == IF E.op \in {"clone", "serde"} THEN E.dst ELSE E.w
(* the strict model is only defined on well-formed stores: once a world's structure is broken (which
   is reported by the operation that breaks it) the comparison is skipped for that world *)
PreWellFormed(w) == ~PreWs[w].live \/ StoreInvHolds(PreWs[w].dump)
DriftChecks ==
  IF E.op \in {"reset", "drop", "panicked", "deser_mut", "deser_struct"} THEN TRUE
  ELSE IF ~PreWellFormed(E.w) \/ (E.op = "clone_from" /\ ~PreWellFormed(E.src)) THEN TRUE
  ELSE IF E.op = "clone" THEN Chk("DRIFT", "strict-model-disagrees", PostWs[E.dst].live => ShapeEq(PostStore(E.dst), WS!CloneOf(PreStore(E.w))))
  ELSE IF E.op = "serde" THEN Chk("DRIFT", "strict-model-disagrees", (E.res.ok /\ PostWs[E.dst].live) => ShapeEq(PostStore(E.dst), WS!SerDeOf(PreStore(E.w))))
  ELSE Chk("DRIFT", "strict-model-disagrees", PostWs[E.w].live => ShapeEq(PostStore(E.w), StrictNext))

(* C11 with a specification-side oracle: world w was serialized (JSON), the structured mutations
   E.muts (vocabulary of Serde.tla) applied, and deserialization attempted into slot dst.  The
   verdict and, if accepted, the resulting store are predicted by Serde.tla from the previous dump. *)
SD == INSTANCE Serde WITH NComp <- 9
OpDeserStruct ==
  IF ~StoreInvHolds(PreWs[E.w].dump)
  THEN issued' = [issued EXCEPT ![E.dst] = IF PostWs[E.dst].live THEN DOMAIN Ents(PostWs[E.dst]) ELSE {}]
  ELSE
  LET d == PreWs[E.w].dump
      order == [k \in DOMAIN d.tables |-> d.tables[k].bits]
      x == SD!ApplyMuts(SD!Encode(PreStore(E.w), order), E.muts)
      acc == SD!Accepts(x) IN
  /\ Chk("C11", "invalid-input-accepted", E.res.ok => acc)
  /\ Chk("DRIFT", "acceptable-input-rejected(Serde.tla)", acc => E.res.ok)
  /\ Chk("C11", "ok-but-no-world", E.res.ok => PostWs[E.dst].live)
  /\ Chk("C11", "accepted-world-differs-from-the-decoding-of-the-input",
         (E.res.ok /\ acc /\ PostWs[E.dst].live) => ShapeEq(PostStore(E.dst), SD!Decode(x)))
  /\ Chk("C11", "error-but-world-returned", ~E.res.ok => ~PostWs[E.dst].live)
  /\ issued' = [issued EXCEPT ![E.dst] = IF E.res.ok /\ PostWs[E.dst].live THEN DOMAIN Ents(PostWs[E.dst]) ELSE {}]
  /\ Chk("C10", "source-changed-by-serialization", Ents(PostWs[E.w]) = Ents(PreWs[E.w]))

(* what `==` computes according to the strict model (WorldStore!StoreEq) on the observed stores and
   values; a disagreement with the logged result is drift, the property verdict is eq => AbsEq *)
ObservedStoreEq(a, b) ==
  LET x == PostStore(a)
      y == PostStore(b) IN
  /\ x.len = y.len /\ x.slots = y.slots /\ x.free = y.free
  /\ Cardinality(DOMAIN x.tables) = Cardinality(DOMAIN y.tables)
  /\ \A k \in DOMAIN x.tables : k \in DOMAIN y.tables /\ x.tables[k].ids = y.tables[k].ids
  /\ Vals(Ents(PostWs[a])) = Vals(Ents(PostWs[b]))
  /\ ResVals(PostWs[a]) = ResVals(PostWs[b])
EqDrift ==
  \A a \in Worlds : \A b \in Worlds :
     (a < b /\ PostWs[a].live /\ PostWs[b].live
      /\ StoreInvHolds(PostWs[a].dump) /\ StoreInvHolds(PostWs[b].dump)) =>
        Chk("DRIFT", "equality-differs-from-strict-model", PostWs[a].eq[b] = ObservedStoreEq(a, b))

-----------------------------------------------------------------------------
(* Lock-step twins (C06 / C10): an op flagged m=2 repeats the previous op on  *)
(* the twin world and must have the same results and leave the same content.  *)
Touched ==
  CASE E.op \in {"clone", "serde", "deser_mut", "deser_struct"} -> {E.dst}
    [] E.op = "reset" -> Worlds
    [] E.op = "panicked" -> Worlds
    [] OTHER -> {E.w}

NoTwin == [p |-> 0, prop |-> "none"]
TwinProp(w) == twin[w].prop
Unlink(tw, ws) == [w \in Worlds |-> IF w \in ws \/ tw[w].p \in ws THEN NoTwin ELSE tw[w]]
TwinNext ==
  CASE E.op = "clone" -> [Unlink(twin, {E.w, E.dst}) EXCEPT ![E.dst] = [p |-> E.w, prop |-> "C10"],
                                                            ![E.w] = [p |-> E.dst, prop |-> "C10"]]
    [] E.op = "serde" /\ E.res.ok ->
                         [Unlink(twin, {E.w, E.dst}) EXCEPT ![E.dst] = [p |-> E.w, prop |-> "C06"],
                                                            ![E.w] = [p |-> E.dst, prop |-> "C06"]]
    [] E.op \in {"reset", "panicked"} -> [w \in Worlds |-> NoTwin]
    [] "m" \in DOMAIN E -> twin
    [] OTHER -> Unlink(twin, Touched)
MirrorChecks ==
  IF "m" \in DOMAIN E /\ E.m = 2
  THEN LET a == Rec[l - 1].w
           b == E.w
           p == TwinProp(b) IN
       /\ Chk("HARNESS", "mirror-without-twin", twin[b].p = a)
       /\ Chk(p, "twin-diverged-results", E.res = Rec[l - 1].res)
       /\ Chk(p, "twin-diverged-content", Vals(Ents(PostWs[b])) = Vals(Ents(PostWs[a])))
       /\ Chk(p, "twin-diverged-equality", PostWs[a].eq[b] /\ PostWs[b].eq[a])
  ELSE TRUE

-----------------------------------------------------------------------------
OpNew ==
  /\ Chk("C01", "new-world-not-empty", PostWs[E.w].live /\ DOMAIN Post = {})
  /\ Chk("C15", "new-world-resources", PostWs[E.w].live /\ ResVals(PostWs[E.w]) =
             [r \in ResNames |-> E.vals[CHOOSE k \in 1..3 : ResSeq[k] = r]])
  /\ issued' = [issued EXCEPT ![E.w] = {}]

OpDrop ==
  /\ Chk("HARNESS", "drop-left-world-live", ~PostWs[E.w].live)
  /\ issued' = [issued EXCEPT ![E.w] = {}]

OpReset ==
  /\ Chk("HARNESS", "reset-left-world-live", \A w \in Worlds : ~PostWs[w].live)
  /\ issued' = [w \in Worlds |-> {}]

OpPanicked ==
  /\ Chk("C01", "operation-panicked:" \o E.was, FALSE)
  \* ... and for the property whose operation it was (no user code panics in these histories)
  /\ Chk("C06", "round-trip-panicked", E.was # "serde")
  /\ Chk("C10", "copy-panicked", E.was \notin {"clone", "clone_from"})
  /\ Chk("C11", "deserialization-of-untrusted-input-panicked", E.was \notin {"deser_mut", "deser_struct"})
  /\ Chk("C03", "query-panicked", E.was \notin {"query", "qmut"})
  /\ Chk("C15", "resource-access-panicked", E.was \notin {"getmut", "viewres"})
  /\ issued' = [w \in Worlds |-> {}]

(* a crash of the driver process inside a library call (abort, segfault): recorded by the
   wrapper as a final event; `light` events carry only the structural dumps *)
CrashStep ==
  /\ Chk("C01", "operation-crashed:" \o E.was, FALSE)
  /\ Chk("C05", "process-crashed-in-safe-call:" \o E.was, FALSE)
  \* the property whose operation it was
  /\ Chk("C09", "parallel-query-crashed", ~(E.was = "query" /\ "args" \in DOMAIN E /\ "pool" \in DOMAIN E.args))
  /\ Chk("C03", "query-crashed", ~(E.was \in {"query", "qmut"} /\ "args" \in DOMAIN E /\ "pool" \notin DOMAIN E.args))
  /\ Chk("C11", "deserialization-of-untrusted-input-crashed", E.was # "deser_mut")
  /\ Chk("C06", "round-trip-crashed", E.was # "serde")
  /\ Chk("C10", "copy-crashed", E.was \notin {"clone", "clone_from"})
  /\ Chk("C15", "resource-access-crashed", E.was \notin {"getmut", "viewres"})
  /\ UNCHANGED <<issued, tok, cnt, twin, heap>>
LightStep ==
  /\ \A w \in Worlds : PostWs[w].live =>
        LET sc == Checks(PostWs[w].dump) IN
        /\ \A k \in DOMAIN sc : Chk("C13", sc[k][1], sc[k][2] \/ PreBroken(w, k))
        /\ Chk("C02", "identifier-location-points-at-another-row",
               (sc[3][2] /\ sc[4][2]) \/ PreBroken(w, 3) \/ PreBroken(w, 4))
  /\ UNCHANGED <<issued, tok, cnt, twin, heap>>

FullStep ==
  /\ CASE E.op = "insert" -> OpInsert
       [] E.op = "extend" -> OpExtend
       [] E.op = "extend_ragged" -> OpExtendRagged
       [] E.op = "remove" -> OpRemove
       [] E.op = "clear" -> OpClear
       [] E.op = "add" -> OpAdd
       [] E.op = "remc" -> OpRemc
       [] E.op = "add2" -> OpAdd2
       [] E.op = "qmut" -> OpQmut
       [] E.op \in {"reserve", "shrink"} -> OpNoChange
       [] E.op = "clone" -> OpClone
       [] E.op = "clone_from" -> OpCloneFrom
       [] E.op = "serde" -> OpSerde
       [] E.op = "deser_mut" -> OpDeserMut
       [] E.op = "deser_struct" -> OpDeserStruct
       [] E.op = "getmut" -> OpGetMut
       [] E.op = "viewres" -> OpViewRes
       [] E.op = "query" -> OpQuery
       [] E.op = "new" -> OpNew
       [] E.op = "drop" -> OpDrop
       [] E.op = "reset" -> OpReset
       [] E.op = "panicked" -> OpPanicked
       [] OTHER -> /\ Chk("HARNESS", "unknown-op:" \o E.op, FALSE) /\ UNCHANGED issued
  /\ IF E.op = "panicked"
     THEN /\ tok' = {} /\ cnt' = [c \in Counted |-> 0]
     ELSE /\ LedgerChecks
          \* resynchronise with what is observed, so that one leak is reported once, where it arises
          /\ tok' = TokSet(PostWs)
          /\ cnt' = [c \in Counted |-> CntOf(PostWs, c)]
  /\ \A w \in Worlds : (w \notin Touched) => Untouched(w)
  /\ \A w \in Worlds : PostWs[w].live => WorldChecks(w)
  /\ EqChecks
  /\ MirrorChecks
  /\ DriftChecks
  /\ EqDrift
  /\ twin' = TwinNext
  /\ IF E.op = "panicked" THEN heap' = {} ELSE HeapChecks /\ heap' = HeapNext

Step ==
  /\ l <= NRec
  /\ l' = l + 1
  /\ IF E.op = "crashed" THEN CrashStep
     ELSE IF "light" \in DOMAIN E THEN LightStep
     ELSE FullStep

Init == /\ l = 1
        /\ issued = [w \in Worlds |-> {}]
        /\ tok = {}
        /\ cnt = [c \in Counted |-> 0]
        /\ twin = [w \in Worlds |-> NoTwin]
        /\ heap = {}

Spec == Init /\ [][Step]_vars

(* every line consumed; printed so that the driver can tell a complete run from a crash *)
Done == /\ PrintT(<<"CONSUMED", TLCGet("stats").diameter - 1, NRec>>)
        /\ TLCGet("stats").diameter - 1 = NRec
=============================================================================
