-------------------------------- MODULE Heap --------------------------------
(***************************************************************************)
(* Life cycle of one type-erased component column (C05).                    *)
(* brood stores a column as the raw parts (pointer, capacity) of a Vec<C>;   *)
(* the table's shared `length` supplies the third part.  Every operation     *)
(* rebuilds the Vec from the recorded parts, works on it and must write the  *)
(* (possibly changed) parts back (src/registry/sealed/storage.rs,            *)
(* src/entity/sealed/storage.rs, src/entities/sealed/storage.rs).            *)
(*                                                                         *)
(* The allocator is modelled as a set of live blocks [ptr, cap].  A block is *)
(* released or resized only through the Vec rebuilt from the recorded parts, *)
(* so the protocol holds iff the recorded parts always name a live block of  *)
(* exactly that capacity (or the dangling pointer with capacity 0).          *)
(*   Recorded       the recorded parts are live with the recorded capacity   *)
(*   NoLeak         every live block is the recorded one                     *)
(*   LenFits        length <= capacity                                       *)
(* AdoptGuard = "len0cap0" is the code as pinned: a caller's Vec is adopted  *)
(* as the column only when the column is empty AND owns no buffer;           *)
(* "len0" is seeded change m1-C05 (kept as a self-test: NoLeak must fail).   *)
(***************************************************************************)
EXTENDS Naturals, FiniteSets, TLC

CONSTANTS MaxCap, AdoptGuard
VARIABLES live,      \* set of live blocks [ptr, cap]
          rec,       \* recorded raw parts [ptr, cap]; ptr 0 = dangling (no allocation)
          len,       \* shared length
          next       \* next fresh pointer
vars == <<live, rec, len, next>>

Dangling == [ptr |-> 0, cap |-> 0]
Init == live = {} /\ rec = Dangling /\ len = 0 /\ next = 1

(* Vec::reserve / push growth through the rebuilt Vec: the old block (if any) is released, a new
   one obtained, and the new parts are written back *)
Grow(newcap) ==
  /\ newcap > rec.cap /\ newcap <= MaxCap
  /\ live' = (live \ {rec}) \cup {[ptr |-> next, cap |-> newcap]}
  /\ rec' = [ptr |-> next, cap |-> newcap]
  /\ next' = next + 1
Push ==
  /\ len < MaxCap
  /\ IF len < rec.cap THEN UNCHANGED <<live, rec, next>>
     ELSE \E c \in (rec.cap + 1)..MaxCap : Grow(c)
  /\ len' = len + 1
Reserve == \E c \in 1..MaxCap : Grow(c) /\ UNCHANGED len
SwapRemove == len > 0 /\ len' = len - 1 /\ UNCHANGED <<live, rec, next>>
Clear == len' = 0 /\ UNCHANGED <<live, rec, next>>
ShrinkToFit ==
  /\ rec.cap > len
  /\ IF len = 0
     THEN live' = live \ {rec} /\ rec' = Dangling /\ UNCHANGED next
     ELSE /\ live' = (live \ {rec}) \cup {[ptr |-> next, cap |-> len]}
          /\ rec' = [ptr |-> next, cap |-> len] /\ next' = next + 1
  /\ UNCHANGED len
(* World::extend with a batch: the caller's Vec (its own live block) is either adopted as the
   column or appended to the existing column and then released *)
ExtendBatch(n, vcap) ==
  /\ n >= 1 /\ n <= vcap /\ len + n <= MaxCap /\ vcap <= MaxCap
  /\ LET v == [ptr |-> next, cap |-> vcap]
         adopt == IF AdoptGuard = "len0cap0" THEN len = 0 /\ rec.cap = 0 ELSE len = 0 IN
     IF adopt
     THEN /\ live' = live \cup {v}          \* the caller's block becomes the column
          /\ rec' = v /\ next' = next + 1
     ELSE \* append: grow if needed (through the rebuilt Vec), then the caller's Vec is dropped
          IF len + n <= rec.cap
          THEN UNCHANGED <<live, rec>> /\ next' = next + 1
          ELSE \E c \in (len + n)..MaxCap :
                  /\ live' = (live \ {rec}) \cup {[ptr |-> next + 1, cap |-> c]}
                  /\ rec' = [ptr |-> next + 1, cap |-> c]
                  /\ next' = next + 2
  /\ len' = len + n
FreeColumn ==      \* archetype drop / table erased
  /\ live' = live \ {rec} /\ rec' = Dangling /\ len' = 0 /\ UNCHANGED next

Next == Push \/ Reserve \/ SwapRemove \/ Clear \/ ShrinkToFit \/ FreeColumn
        \/ \E n \in 1..2, c \in 1..MaxCap : ExtendBatch(n, c)
Spec == Init /\ [][Next]_vars

Recorded == rec = Dangling \/ rec \in live
NoLeak == live \subseteq {rec}
LenFits == len <= rec.cap
Bound == next <= 12
=============================================================================
