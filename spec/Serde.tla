------------------------------- MODULE Serde -------------------------------
(***************************************************************************)
(* The serialized form of a world's entity storage, as a structured value,  *)
(* what the deserializer accepts, what it builds, and a vocabulary of       *)
(* input mutations (C06, C11).                                              *)
(*                                                                         *)
(* Wire value (component values and resources are not modelled: they are    *)
(* opaque to the structure):                                                *)
(*   [archs  : Seq([bits: Nat, len: Nat, ids: Seq(<<index, gen>>), sig]),   *)
(*    length : Nat,                      \* allocator: number of slots      *)
(*    free   : Seq(<<index, gen>>)]      \* allocator: free list, in order  *)
(* `bits` is the identifier as a little-endian number INCLUDING padding     *)
(* bits, `len` the declared row count, `ids` the rows actually present.     *)
(*                                                                         *)
(* Accepts(w) transcribes the checks of src/archetype/identifier/impl_serde *)
(* (padding bits), src/archetype/impl_serde (declared length = rows         *)
(* present), src/archetypes/impl_serde (unique identifiers) and             *)
(* Allocator::from_serialized_parts (free and stored indices in range,      *)
(* pairwise distinct, every slot accounted for).  Decode(w) is the store    *)
(* the code builds from an accepted input.                                  *)
(***************************************************************************)
EXTENDS WorldStore

Rng(s) == {s[k] : k \in DOMAIN s}

(* how the component values of a row look on the wire: component 0 of the harness registry is a
   unit struct, every other one a number; a row serialized for one component set is only readable
   as a row of a component set with the same pattern *)
SigOf(bits) == LET cs == SetToSortSeq(CompsOf(bits % (2 ^ NComp)), <) IN
               [j \in DOMAIN cs |-> IF cs[j] = 0 THEN "unit" ELSE "num"]
Encode(s, order) ==    \* order: the table keys in serialization (iteration) order
  [archs |-> [k \in DOMAIN order |-> [bits |-> order[k], len |-> Len(s.tables[order[k]].ids),
                                        ids |-> s.tables[order[k]].ids, sig |-> SigOf(order[k])]],
   length |-> Len(s.slots),
   free |-> [k \in DOMAIN s.free |-> <<s.free[k], s.slots[s.free[k] + 1].g>>]]

RowOccs(w) == UNION {{<<a, r>> : r \in DOMAIN w.archs[a].ids} : a \in DOMAIN w.archs}
StoredIdx(w) == {w.archs[p[1]].ids[p[2]][1] : p \in RowOccs(w)}
FreeIdx(w) == {w.free[k][1] : k \in DOMAIN w.free}

Accepts(w) ==
  /\ \A a \in DOMAIN w.archs : w.archs[a].bits < 2 ^ NComp                 \* padding bits are zero
  /\ \A a \in DOMAIN w.archs : Len(w.archs[a].ids) = w.archs[a].len          \* declared length = rows present
  /\ \A a \in DOMAIN w.archs : w.archs[a].ids # <<>> => SigOf(w.archs[a].bits) = w.archs[a].sig  \* rows readable
  /\ \A a, b \in DOMAIN w.archs : a # b => w.archs[a].bits # w.archs[b].bits  \* unique identifiers
  /\ \A k \in DOMAIN w.free : w.free[k][1] < w.length                        \* freed index in bounds
  /\ Cardinality(FreeIdx(w)) = Len(w.free)                                   \* no duplicate freed index
  /\ \A p \in RowOccs(w) : w.archs[p[1]].ids[p[2]][1] < w.length             \* stored index in bounds
  /\ Cardinality(StoredIdx(w)) = Cardinality(RowOccs(w))                     \* no index stored twice
  /\ StoredIdx(w) \cap FreeIdx(w) = {}                                       \* not both free and stored
  /\ StoredIdx(w) \cup FreeIdx(w) = 0..(w.length - 1)                        \* every slot accounted for

Decode(w) ==
  LET rowOf(i) == CHOOSE p \in RowOccs(w) : w.archs[p[1]].ids[p[2]][1] = i
      freeOf(i) == CHOOSE k \in DOMAIN w.free : w.free[k][1] = i IN
  [slots |-> [n \in 1..w.length |->
                IF (n - 1) \in FreeIdx(w)
                THEN [g |-> w.free[freeOf(n - 1)][2], loc |-> NoLoc]
                ELSE LET p == rowOf(n - 1) IN
                     [g |-> w.archs[p[1]].ids[p[2]][2],
                      loc |-> [t |-> w.archs[p[1]].bits, r |-> p[2] - 1]]],
   free |-> [k \in DOMAIN w.free |-> w.free[k][1]],
   tables |-> [b \in {w.archs[a].bits : a \in DOMAIN w.archs} |->
                 LET a == CHOOSE a \in DOMAIN w.archs : w.archs[a].bits = b IN
                 [ids |-> w.archs[a].ids, cols |-> [c \in CompsOf(b) |-> w.archs[a].ids]]],
   tl |-> {},
   fl |-> {w.archs[a].bits : a \in DOMAIN w.archs},
   len |-> SumSeq([a \in DOMAIN w.archs |-> w.archs[a].len])]

-----------------------------------------------------------------------------
(* Mutation vocabulary.  A mutation is a record [k, a, r, v, g]: kind, archetype position (1-based), *)
(* row / free-list position (1-based), value, second value.  Out-of-range positions are no-ops.      *)
DelAt(s, j) == [k \in 1..(Len(s) - 1) |-> IF k < j THEN s[k] ELSE s[k + 1]]
DupAt(s, j) == [k \in 1..(Len(s) + 1) |-> IF k <= j THEN s[k] ELSE s[k - 1]]
InA(w, m) == m.a \in DOMAIN w.archs
InR(w, m) == InA(w, m) /\ m.r \in DOMAIN w.archs[m.a].ids
InF(w, m) == m.r \in DOMAIN w.free
ApplyMut(w, m) ==
  CASE m.k = "row_index" /\ InR(w, m) -> [w EXCEPT !.archs[m.a].ids[m.r] = <<m.v, @[2]>>]
    [] m.k = "row_gen" /\ InR(w, m) -> [w EXCEPT !.archs[m.a].ids[m.r] = <<@[1], m.v>>]
    [] m.k = "row_del" /\ InR(w, m) -> [w EXCEPT !.archs[m.a].ids = DelAt(@, m.r)]
    [] m.k = "row_dup" /\ InR(w, m) -> [w EXCEPT !.archs[m.a].ids = DupAt(@, m.r)]
    [] m.k = "arch_len" /\ InA(w, m) -> [w EXCEPT !.archs[m.a].len = m.v]
    [] m.k = "arch_bits" /\ InA(w, m) -> [w EXCEPT !.archs[m.a].bits = m.v]
    [] m.k = "arch_del" /\ InA(w, m) -> [w EXCEPT !.archs = DelAt(@, m.a)]
    [] m.k = "arch_dup" /\ InA(w, m) -> [w EXCEPT !.archs = DupAt(@, m.a)]
    [] m.k = "alloc_len" -> [w EXCEPT !.length = m.v]
    [] m.k = "free_del" /\ InF(w, m) -> [w EXCEPT !.free = DelAt(@, m.r)]
    [] m.k = "free_dup" /\ InF(w, m) -> [w EXCEPT !.free = DupAt(@, m.r)]
    [] m.k = "free_push" -> [w EXCEPT !.free = Append(@, <<m.v, m.g>>)]
    [] m.k = "free_index" /\ InF(w, m) -> [w EXCEPT !.free[m.r] = <<m.v, @[2]>>]
    [] m.k = "free_gen" /\ InF(w, m) -> [w EXCEPT !.free[m.r] = <<@[1], m.v>>]
    [] OTHER -> w
RECURSIVE ApplyMuts(_, _)
ApplyMuts(w, ms) == IF ms = <<>> THEN w ELSE ApplyMuts(ApplyMut(w, Head(ms)), Tail(ms))

Mu(k, a, r, v, g) == [k |-> k, a |-> a, r |-> r, v |-> v, g |-> g]
(* every single mutation of a wire value over a small value range *)
Mutations(w, maxv) ==
  LET As == 1..(Len(w.archs) + 1)
      Rs == 1..4
      Vs == 0..maxv IN
  {Mu(k, a, r, v, 0) : k \in {"row_index", "row_gen"}, a \in As, r \in Rs, v \in Vs}
  \cup {Mu(k, a, r, 0, 0) : k \in {"row_del", "row_dup"}, a \in As, r \in Rs}
  \cup {Mu(k, a, 0, v, 0) : k \in {"arch_len", "arch_bits"}, a \in As, v \in Vs}
  \cup {Mu(k, a, 0, 0, 0) : k \in {"arch_del", "arch_dup"}, a \in As}
  \cup {Mu("alloc_len", 0, 0, v, 0) : v \in Vs}
  \cup {Mu(k, 0, r, 0, 0) : k \in {"free_del", "free_dup"}, r \in Rs}
  \cup {Mu("free_push", 0, 0, v, g) : v \in Vs, g \in 0..1}
  \cup {Mu(k, 0, r, v, 0) : k \in {"free_index", "free_gen"}, r \in Rs, v \in Vs}
=============================================================================
