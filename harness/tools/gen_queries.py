#!/usr/bin/env python3
"""Generate harness/src/qfamily.rs: the query family for C03 / C09.

A query case = (kind, id view?, ordered list of (component, view kind), filter AST, entry (super)
views, sub views).  Kinds:
  iter     world.query(...).iter
  par      world.par_query(...).iter (rayon)
  entry    world.entry(id).query(Query::<Views, Filter>)
  entries  world.query(Query::<Views!(), None, Views!(), Super>).entries.entry(id).query(Query::<Sub, Filter>)
  mixed    iterate Views while reaching a designated entity through disjoint entry views
Every case carries its descriptor (spec/Access.tla format) in the logged event; the judgement is
made by TLC.  The selection is pairwise-covering + seeded random, fixed (compile time)."""
import itertools, json, random, sys

COMPS = ["Z", "B", "S", "W", "H", "T5", "T6", "T7", "T8"]
KINDS = ["ref", "mut", "optref", "optmut"]

def ty(c, k):
    return {"ref": "&%s" % c, "mut": "&mut %s" % c, "optref": "Option<&%s>" % c, "optmut": "Option<&mut %s>" % c}[k]

def filt_ty(f):
    t = f[0]
    if t == "none": return "filter::None"
    if t == "has": return "filter::Has<%s>" % f[1]
    if t == "not": return "filter::Not<%s>" % filt_ty(f[1])
    if t == "and": return "filter::And<%s, %s>" % (filt_ty(f[1]), filt_ty(f[2]))
    if t == "or": return "filter::Or<%s, %s>" % (filt_ty(f[1]), filt_ty(f[2]))
    if t == "vref": return "&'static %s" % f[1]
    if t == "vmut": return "&'static mut %s" % f[1]
    if t == "vopt": return "Option<&'static %s>" % f[1]
    raise ValueError(f)

def views_ty(views, with_id, id_pos):
    items = [ty(c, k) for c, k in views]
    if with_id:
        items.insert(min(id_pos, len(items)), "entity::Identifier")
    return "Views!(%s)" % ", ".join(items)

def rand_filter(rnd, depth=0, comps=COMPS):
    r = rnd.random()
    if depth >= 2 or r < 0.35:
        return rnd.choice([["none"], ["has", rnd.choice(comps)], ["has", rnd.choice(comps)], ["vref", rnd.choice(comps)], ["vopt", rnd.choice(comps)], ["vmut", rnd.choice(comps)]])
    if r < 0.55:
        return ["not", rand_filter(rnd, depth + 1, comps)]
    if r < 0.8:
        return ["and", rand_filter(rnd, depth + 1, comps), rand_filter(rnd, depth + 1, comps)]
    return ["or", rand_filter(rnd, depth + 1, comps), rand_filter(rnd, depth + 1, comps)]

SUB_OK = {"ref": ["ref", "mut", "optref", "optmut"], "mut": ["mut", "optmut"],
          "optref": ["ref", "mut", "optref", "optmut"], "optmut": ["mut", "optmut"]}

def family(n_iter, n_entry, n_entries, n_par, n_mixed, seed=7):
    rnd = random.Random(seed)
    cases = []
    def rand_views(maxn=4, kinds=KINDS):
        n = rnd.choice([0, 1, 1, 2, 2, 3, maxn])
        cs = rnd.sample(COMPS, n)
        return [(c, rnd.choice(kinds)) for c in cs]
    # systematic part: every (component, kind) alone, with and without the id view
    for c in COMPS:
        for k in KINDS:
            cases.append({"kind": "iter", "id": rnd.random() < 0.5, "idpos": 0, "views": [(c, k)], "filter": ["none"]})
    # every pair of kinds on two components, both orders
    for k1, k2 in itertools.product(KINDS, KINDS):
        a, b = rnd.sample(COMPS, 2)
        cases.append({"kind": "iter", "id": rnd.random() < 0.5, "idpos": rnd.randint(0, 2), "views": [(a, k1), (b, k2)], "filter": rand_filter(rnd)})
    # every filter constructor over an empty / small view list
    for f in [["none"], ["has", "Z"], ["not", ["has", "H"]], ["and", ["has", "S"], ["has", "W"]], ["or", ["has", "B"], ["has", "H"]],
              ["vref", "S"], ["vopt", "W"], ["vmut", "H"], ["not", ["or", ["has", "Z"], ["not", ["has", "S"]]]],
              ["and", ["vref", "B"], ["not", ["vopt", "Z"]]]]:
        cases.append({"kind": "iter", "id": True, "idpos": 0, "views": [], "filter": f})
        cases.append({"kind": "iter", "id": False, "idpos": 0, "views": rand_views(2), "filter": f})
    # a required view followed (in registry order) by an optional one, sequential and parallel:
    # the column walk must stay aligned with the identifier bits
    for a, b in [("B", "W"), ("B", "H"), ("B", "T8"), ("S", "W"), ("S", "H"), ("S", "T8"), ("W", "H"), ("W", "T8")]:
        for k1 in ("mut", "ref"):
            for k2 in ("optref", "optmut"):
                for kind in ("iter", "par"):
                    cases.append({"kind": kind, "id": True, "idpos": 0, "views": [(a, k1), (b, k2)], "filter": ["none"]})
    while len([c for c in cases if c["kind"] == "iter"]) < n_iter:
        cases.append({"kind": "iter", "id": rnd.random() < 0.6, "idpos": rnd.randint(0, 3), "views": rand_views(5), "filter": rand_filter(rnd)})
    for _ in range(n_entry):
        cases.append({"kind": "entry", "id": rnd.random() < 0.3, "idpos": rnd.randint(0, 2), "views": rand_views(4), "filter": rand_filter(rnd)})
    # entries: every (super kind, sub kind) pairing, then random ones
    pairs = [(sup, sub) for sub, sups in SUB_OK.items() for sup in sups]
    k = 0
    while k < n_entries:
        if k < len(pairs):
            sup_k, sub_k = pairs[k]
            c = ["S", "W", "H", "T8"][k % 4]
            sup = [(c, sup_k)]
            sub = [(c, sub_k)]
            extra = rnd.choice([x for x in COMPS if x != c])
            if rnd.random() < 0.5:
                sup.append((extra, rnd.choice(KINDS)))
        else:
            sup = rand_views(4)
            sub = []
            for c, sk in sup:
                if rnd.random() < 0.7:
                    sub.append((c, rnd.choice([s for s, sups in SUB_OK.items() if sk in sups])))
            rnd.shuffle(sub)
        supc = [c for c, _ in sup]
        f = rnd.choice([["none"]] + [["has", c] for c in supc] + [["not", ["has", c]] for c in supc]) if supc else ["none"]
        cases.append({"kind": "entries", "id": False, "idpos": 0, "views": sub, "filter": f, "super": sup})
        k += 1
    # single-row views (World::entry and query-time Entries): a view of any kind followed, in registry
    # order, by a required one; the sub-view asks for the later component only (the column walk of the
    # single-row view must step over the earlier column whatever its view kind)
    sub_of = {"ref": "ref", "mut": "mut"}
    for a, b in [("B", "W"), ("S", "H"), ("W", "T8")]:
        for k1 in KINDS:
            for k2 in ("ref", "mut"):
                cases.append({"kind": "entries", "id": False, "idpos": 0, "views": [(b, sub_of[k2])], "filter": ["none"],
                              "super": [(a, k1), (b, k2)]})
                cases.append({"kind": "entry", "id": False, "idpos": 0, "views": [(a, k1), (b, k2)], "filter": ["none"]})
    for a, b in [("B", "H"), ("S", "T8")]:
        for k1 in ("optmut", "optref"):
            cases.append({"kind": "entries", "id": False, "idpos": 0, "views": [(b, "ref"), (a, "optref")], "filter": ["none"],
                          "super": [(b, "mut"), (a, k1)]})
    for _ in range(n_par):
        cases.append({"kind": "par", "id": rnd.random() < 0.5, "idpos": rnd.randint(0, 2), "views": rand_views(4), "filter": rand_filter(rnd)})
    for _ in range(n_mixed):
        views = rand_views(3)
        used = {c for c, _ in views}
        rest = [c for c in COMPS if c not in used]
        sup = [(c, rnd.choice(KINDS)) for c in rnd.sample(rest, min(len(rest), rnd.choice([1, 2])))]
        sub = [(c, rnd.choice([s for s, sups in SUB_OK.items() if sk in sups])) for c, sk in sup]
        cases.append({"kind": "mixed", "id": True, "idpos": 0, "views": views, "filter": rand_filter(rnd), "super": sup, "sub": sub})
    return cases

def desc(case):
    d = {"kind": case["kind"], "id": case["id"],
         "views": {c: "none" for c in COMPS}, "order": [c for c, _ in case["views"]], "filter": case["filter"],
         "super": {c: "none" for c in COMPS}, "sub": {c: "none" for c in COMPS}}
    for c, k in case["views"]:
        d["views"][c] = k
    for c, k in case.get("super", []):
        d["super"][c] = k
    for c, k in case.get("sub", []):
        d["sub"][c] = k
    return d

def item_code(views, with_id, id_pos, var_prefix="x", par=False):
    """Returns (pattern, body) where body fills `c` (Map) and `idv` (String) and applies writes."""
    names = ["%s%d" % (var_prefix, i) for i in range(len(views))]
    pat = list(names)
    if with_id:
        pat.insert(min(id_pos, len(pat)), "idx")
    body = []
    if with_id:
        body.append("idv = ids(idx);")
    for (c, k), n in zip(views, names):
        if k == "ref":
            body.append('c.insert("%s".into(), obs_addr(%s.obs(), false));' % (c, n))
        elif k == "mut":
            body.append('{ let o = %s.obs(); c.insert("%s".into(), obs_addr(o, true)); %s.set(o.v + v); }' % (n, c, n))
        elif k == "optref":
            body.append('if let Some(y) = %s { c.insert("%s".into(), obs_addr(y.obs(), false)); }' % (n, c))
        elif k == "optmut":
            body.append('if let Some(y) = %s { let o = y.obs(); c.insert("%s".into(), obs_addr(o, true)); y.set(o.v + v); }' % (n, c))
    return "result!(%s)" % ", ".join(pat), " ".join(body)

def gen(cases, path):
    w = []
    w.append("// @generated by tools/gen_queries.py - do not edit\n")
    w.append("#![allow(unused_variables, unused_mut, unused_assignments)]\n")
    w.append("use brood_verif_harness::comps::*;\nuse brood_verif_harness::{ids, Wd};\nuse brood::{entity, entity::Identifier, query::{filter, result, Views}, Query};\nuse rayon::iter::ParallelIterator;\nuse serde_json::{json, Map, Value};\n\n")
    w.append("pub const N_QUERIES: usize = %d;\n" % len(cases))
    w.append("fn obs_addr(o: Obs, m: bool) -> Value { if o.ok { json!({\"v\": o.v, \"t\": o.t, \"a\": (o.addr % 1_000_000_007) as u64, \"m\": m}) } else { json!({\"v\": o.v, \"t\": o.t, \"a\": 0, \"m\": m, \"bad\": 1}) } }\n")
    w.append("pub fn needs_target(q: usize) -> bool { matches!(q, %s) }\n" % (" | ".join(str(i) for i, c in enumerate(cases) if c["kind"] in ("entry", "entries", "mixed")) or "usize::MAX"))
    w.append("pub fn is_par(q: usize) -> bool { matches!(q, %s) }\n" % (" | ".join(str(i) for i, c in enumerate(cases) if c["kind"] == "par") or "usize::MAX"))
    w.append("pub fn descriptor(q: usize) -> Value {\n    match q {\n")
    for i, c in enumerate(cases):
        w.append("        %d => serde_json::from_str(r#\"%s\"#).unwrap(),\n" % (i, json.dumps(desc(c))))
    w.append("        _ => panic!(\"harness: bad query\"),\n    }\n}\n\n")
    for i, c in enumerate(cases):
        vt = views_ty(c["views"], c["id"], c["idpos"])
        ft = filt_ty(c["filter"])
        pat, body = item_code(c["views"], c["id"], c["idpos"])
        w.append("fn q%d(world: &mut Wd, v: u32, target: Option<Identifier>, st: u32) -> Value {\n" % i)
        w.append("    let mut items: Vec<Value> = Vec::new();\n    let mut hints: Vec<Value> = Vec::new();\n")
        if c["kind"] == "iter":
            proc = "{ let mut c = Map::new(); let mut idv = String::new(); %s items.push(json!({\"id\": idv, \"c\": Value::Object(c)})); }" % body
            w.append("    let mut it = world.query(Query::<%s, %s>::new()).iter;\n" % (vt, ft))
            w.append("    match st {\n")
            # 0: external iteration with size_hint before every next()
            w.append("        0 => loop {\n            let h = it.size_hint();\n            hints.push(json!([h.0, h.1.map(|x| x as i64).unwrap_or(-1)]));\n")
            w.append("            match it.next() {\n                Some(%s) => %s\n                None => break,\n            }\n        },\n" % (pat, proc))
            # 1: internal iteration (fold) over the whole iterator
            w.append("        1 => it.for_each(|%s| %s),\n" % (pat, proc))
            # 2, 3: advance with next() then finish with internal iteration
            w.append("        _ => {\n            for _ in 0..(st - 1) { if let Some(%s) = it.next() %s }\n            it.fold((), |_, %s| %s);\n        }\n    }\n" % (pat, proc, pat, proc))
            w.append("    json!({\"res\": {\"items\": items, \"hints\": hints, \"found\": true}})\n}\n")
        elif c["kind"] == "par":
            w.append("    let got: Vec<Value> = world.par_query(Query::<%s, %s>::new()).iter.map(|%s| { let mut c = Map::new(); let mut idv = String::new(); %s json!({\"id\": idv, \"c\": Value::Object(c)}) }).collect();\n" % (vt, ft, pat, body))
            w.append("    json!({\"res\": {\"items\": got, \"hints\": hints, \"found\": true}})\n}\n")
        elif c["kind"] == "entry":
            w.append("    let t = target.expect(\"harness: target\");\n    let found;\n")
            w.append("    match world.entry(t) {\n        Some(mut e) => { found = true; if let Some(%s) = e.query(Query::<%s, %s>::new()) { let mut c = Map::new(); let mut idv = String::new(); %s items.push(json!({\"id\": idv, \"c\": Value::Object(c)})); } }\n        None => { found = false; }\n    }\n" % (pat, vt, ft, body))
            w.append("    json!({\"res\": {\"items\": items, \"hints\": hints, \"found\": found}})\n}\n")
        elif c["kind"] == "entries":
            st = views_ty(c["super"], False, 0)
            w.append("    let t = target.expect(\"harness: target\");\n    let found;\n")
            w.append("    let mut r = world.query(Query::<Views!(), filter::None, Views!(), %s>::new());\n" % st)
            w.append("    match r.entries.entry(t) {\n        Some(mut e) => { found = true; if let Some(%s) = e.query(Query::<%s, %s>::new()) { let mut c = Map::new(); let mut idv = String::new(); %s items.push(json!({\"id\": idv, \"c\": Value::Object(c)})); } }\n        None => { found = false; }\n    }\n" % (pat, vt, ft, body))
            w.append("    json!({\"res\": {\"items\": items, \"hints\": hints, \"found\": found}})\n}\n")
        elif c["kind"] == "mixed":
            st = views_ty(c["super"], False, 0)
            subt = views_ty(c["sub"], False, 0)
            spat, sbody = item_code(c["sub"], False, 0, var_prefix="s")
            w.append("    let t = target.expect(\"harness: target\");\n    let mut found = false;\n    let mut via: Vec<Value> = Vec::new();\n")
            w.append("    let mut r = world.query(Query::<%s, %s, Views!(), %s>::new());\n" % (vt, ft, st))
            w.append("    for %s in r.iter {\n        let mut c = Map::new(); let mut idv = String::new(); %s items.push(json!({\"id\": idv, \"c\": Value::Object(c)}));\n" % (pat, body))
            w.append("        // while the iterator is live, reach the designated entity through the entry views\n")
            w.append("        if via.is_empty() { if let Some(mut e) = r.entries.entry(t) { found = true; if let Some(%s) = e.query(Query::<%s>::new()) { let mut c = Map::new(); let mut idv = String::new(); %s via.push(json!({\"id\": ids(t), \"c\": Value::Object(c)})); } } }\n    }\n" % (spat, subt, sbody))
            w.append("    json!({\"res\": {\"items\": items, \"hints\": hints, \"found\": found, \"via\": via}})\n}\n")
    w.append("\npub fn run(world: &mut Wd, q: usize, v: u32, target: Option<Identifier>, st: u32) -> Value {\n    let mut r = match q {\n")
    for i in range(len(cases)):
        w.append("        %d => q%d(world, v, target, st),\n" % (i, i))
    w.append("        _ => panic!(\"harness: bad query\"),\n    };\n    r[\"desc\"] = descriptor(q);\n    r\n}\n")
    open(path, "w").write("".join(w))
    print("generated %d queries" % len(cases))

if __name__ == "__main__":
    sizes = {"small": (60, 16, 24, 20, 12), "full": (150, 40, 60, 50, 30)}[sys.argv[2] if len(sys.argv) > 2 else "small"]
    gen(family(*sizes), sys.argv[1])
