#!/usr/bin/env python3
"""Generate the schedule family.

1. src/sched_kinds.rs: the task alphabet.  A kind is a descriptor
     (par, views [(comp, view kind)], id view, filter AST, resource views, entry views)
   over components S, W, H and resources RA, RB; its body is derived mechanically from the
   descriptor (read = log the value, write = order-sensitive update, entry views = look every entity
   of the world up by identifier and apply the same rule).  Systematic part: every view kind on a
   component, filters, resource views, every entry-view kind, views+entry views on one component,
   filter + entry views, ParSystems; plus seeded random kinds.
2. src/bin/sched_<tier><nn>.rs: schedules (pairs / triples / quads of kinds) split over 16 bins
   (compile time: ~4.5 s per pair, ~9.5 s per triple of rustc time).
Selection only decides WHICH kinds and schedules are compiled; every judgement about a run is made
by TLC on the trace, from the descriptors."""
import itertools, json, os, random, sys

COMPS = ["S", "W", "H"]
RES = ["RA", "RB"]
VK = ["ref", "mut", "optref", "optmut"]

def K(views=(), filt=("none",), res=(), entry=(), par=False, idv=False):
    return {"views": list(views), "filter": list(filt), "res": list(res), "entry": list(entry), "par": par, "id": idv}

def kinds():
    rnd = random.Random(11)
    ks = []
    for c in COMPS:                                   # A: every view kind on every component
        for k in VK:
            ks.append(K(views=[(c, k)]))
    ks += [K(views=[("S", "mut")], filt=["has", "H"]),           # B: filters
           K(views=[("S", "mut")], filt=["not", ["has", "H"]]),
           K(views=[("H", "mut")], filt=["has", "W"]),
           K(views=[("W", "ref")], filt=["or", ["has", "S"], ["not", ["has", "H"]]]),
           K(views=[("W", "optmut")], filt=["and", ["has", "S"], ["has", "H"]])]
    ks += [K(views=[("S", "optmut"), ("W", "ref")]),             # C: two / three views
           K(views=[("S", "ref"), ("H", "optref")], idv=True),
           K(views=[("W", "mut"), ("H", "optmut")]),
           K(views=[("H", "ref"), ("S", "ref"), ("W", "optref")]),
           K(views=[("S", "mut"), ("W", "mut")], filt=["not", ["has", "H"]]),
           K(views=[("W", "ref")], idv=True),
           K(views=[], idv=True)]
    ks += [K(res=[("RA", "mut")]),                               # D: resources
           K(views=[("W", "mut")], res=[("RA", "ref")]),
           K(res=[("RB", "mut"), ("RA", "ref")]),
           K(views=[("S", "ref")], res=[("RB", "ref")]),
           K(views=[("S", "ref")], res=[("RA", "mut")]),
           K(views=[("W", "mut")], res=[("RB", "mut")]),
           K(views=[("H", "optref")], res=[("RA", "ref"), ("RB", "mut")])]
    for k in VK:                                                 # E: entry views
        ks.append(K(entry=[("S", k)]))
    ks += [K(views=[("W", "mut")], entry=[("S", "ref")]),
           K(views=[("S", "optref")], entry=[("S", "optref")]),          # same component, shared
           K(views=[("W", "ref")], entry=[("W", "ref")]),
           K(views=[("W", "ref")], filt=["has", "H"], entry=[("S", "mut")]),   # filter + entry views
           K(views=[("H", "optmut")], filt=["not", ["has", "S"]], entry=[("W", "optmut")]),
           K(views=[("S", "ref")], entry=[("W", "mut"), ("H", "optref")], res=[("RA", "ref")])]
    ks += [K(views=[("S", "mut")], par=True),                    # F: ParSystems
           K(views=[("W", "ref"), ("S", "ref")], par=True),
           K(views=[("H", "optmut"), ("W", "mut")], res=[("RB", "ref")], par=True),
           K(views=[("S", "optref")], filt=["has", "W"], entry=[("H", "mut")], par=True)]
    # G (appended so that the numbering of the kinds above is stable): a resource holder behind a filter
    ks += [K(views=[("S", "mut")], filt=["has", "H"], res=[("RA", "mut")])]
    return ks

def name(i):
    return "K%02d" % i

def claim(vk):
    return {"ref": "r", "optref": "r", "mut": "w", "optmut": "w"}[vk]

def access(k):
    a = {}
    for c, vk in k["views"] + k["entry"] + k["res"]:
        m = claim(vk)
        a[c] = "w" if (a.get(c) == "w" or m == "w") else "r"
    return a

def conflict(a, b):
    A, B = access(a), access(b)
    return any(c in B and (m == "w" or B[c] == "w") for c, m in A.items())

def ty(c, k, lt="'a "):
    return {"ref": "&%s%s" % (lt, c), "mut": "&%smut %s" % (lt, c), "optref": "Option<&%s%s>" % (lt, c),
            "optmut": "Option<&%smut %s>" % (lt, c)}[k]

def filt_ty(f):
    t = f[0]
    if t == "none": return "filter::None"
    if t == "has": return "filter::Has<%s>" % f[1]
    if t == "not": return "filter::Not<%s>" % filt_ty(f[1])
    if t == "and": return "filter::And<%s, %s>" % (filt_ty(f[1]), filt_ty(f[2]))
    if t == "or": return "filter::Or<%s, %s>" % (filt_ty(f[1]), filt_ty(f[2]))
    raise ValueError(f)

def acc_code(var, vk, par):
    if vk == "ref": return "rd(t, %s);" % var
    if vk == "mut": return "wr(t, %s);" % var
    if vk == "optref": return "if let Some(y) = %s { rd(t, y); }" % var
    if vk == "optmut": return "if let Some(y) = %s { wr(t, y); }" % var

def kind_src(i, k):
    views = ", ".join((["entity::Identifier"] if k["id"] else []) + [ty(c, vk) for c, vk in k["views"]])
    res = ", ".join(ty(r, vk) for r, vk in k["res"])
    entry = ", ".join(ty(c, vk) for c, vk in k["entry"])
    sub = ", ".join(ty(c, vk, "") for c, vk in k["entry"])
    body = []
    if k["res"]:
        body.append("let result!(%s) = q.resources;" % ", ".join("r%d" % j for j in range(len(k["res"]))))
        for j, (r, vk) in enumerate(k["res"]):
            body.append(acc_code("r%d" % j, vk, False))
    pat = ", ".join((["_id"] if k["id"] else []) + ["x%d" % j for j in range(len(k["views"]))])
    inner = " ".join(acc_code("x%d" % j, vk, k["par"]) for j, (c, vk) in enumerate(k["views"]))
    if k["par"]:
        body.append("q.iter.for_each(|result!(%s)| { %s });" % (pat, inner))
    else:
        body.append("for result!(%s) in q.iter { %s }" % (pat, inner))
    if k["entry"]:
        spat = ", ".join("e%d" % j for j in range(len(k["entry"])))
        sinner = " ".join(acc_code("e%d" % j, vk, False) for j, (c, vk) in enumerate(k["entry"]))
        body.append("for id in ids.iter() { if let Some(mut e) = q.entries.entry(*id) { if let Some(result!(%s)) = e.query(Query::<Views!(%s)>::new()) { %s } } }" % (spat, sub, sinner))
    mac = "par_system" if k["par"] else "system"
    return "%s!(%s, views = Views!(%s), filter = %s, res = Views!(%s), entry = Views!(%s),\n    |t, ids, q| { %s });\n" % (
        mac, name(i), views, filt_ty(k["filter"]), res, entry, " ".join(body))

def descriptor(i, k):
    d = {"k": name(i), "par": k["par"], "id": k["id"], "filter": k["filter"],
         "views": {c: "none" for c in COMPS}, "entry": {c: "none" for c in COMPS}, "res": {r: "none" for r in RES}}
    for c, vk in k["views"]: d["views"][c] = vk
    for c, vk in k["entry"]: d["entry"][c] = vk
    for r, vk in k["res"]: d["res"][r] = vk
    return d

def write_if_changed(path, text):
    try:
        if open(path).read() == text:
            return
    except OSError:
        pass
    open(path, "w").write(text)

def gen_kinds(path):
    ks = kinds()
    w = ["// @generated by tools/gen_sched.py - do not edit\n#![allow(unused_variables, unused_mut)]\n",
         "use crate::comps::*;\nuse crate::sched::{rd, wr};\nuse crate::{system, par_system};\n",
         "use brood::{entity, query::{filter, result, Result, Views}, registry, system::{ParSystem, System}, Query};\n",
         "use rayon::iter::ParallelIterator;\nuse serde_json::Value;\n\n"]
    for i, k in enumerate(ks):
        w.append(kind_src(i, k))
    w.append("\npub fn descriptor(kind: &str) -> Value {\n    let s = match kind {\n")
    for i, k in enumerate(ks):
        w.append("        \"%s\" => r#\"%s\"#,\n" % (name(i), json.dumps(descriptor(i, k))))
    w.append("        _ => panic!(\"harness: unknown kind {kind}\"),\n    };\n    serde_json::from_str(s).unwrap()\n}\n")
    write_if_changed(path, "".join(w))
    return ks

def item(i, k):
    return ("P(%s)" if k["par"] else "S(%s)") % name(i)

def family(tier, ks):
    rnd = random.Random(20260926)
    n = len(ks)
    idx = list(range(n))
    pairs = list(itertools.product(idx, idx))
    rnd.shuffle(pairs)
    # half of the pairs statically conflicting, half not
    pc = [p for p in pairs if conflict(ks[p[0]], ks[p[1]])]
    pn = [p for p in pairs if not conflict(ks[p[0]], ks[p[1]])]
    triples = []
    for a, b, c in itertools.product(idx, idx, idx):
        ab, ac, bc = conflict(ks[a], ks[b]), conflict(ks[a], ks[c]), conflict(ks[b], ks[c])
        # two tasks sharing a stage followed by one that conflicts with exactly one of them (where the
        # run-time add-on decision matters); three independent tasks; a conflicting middle task
        if (not ab and ac != bc) or (not ab and not ac and not bc) or (ab and not bc and not ac):
            triples.append((a, b, c))
    rnd.shuffle(triples)
    # four tasks: one task, then a stage of three of which the first and the last conflict with it
    # and the middle one does not (the add-on look-ahead has to keep what the running stage claimed
    # after it accepted the middle one); and two + two
    qa, qb = [], []
    small = idx[:28]
    for a, b, c, d in itertools.product(small, repeat=4):
        ka, kb, kc, kd = ks[a], ks[b], ks[c], ks[d]
        if conflict(ka, kb) and not conflict(ka, kc) and conflict(ka, kd) and not conflict(kb, kc) and not conflict(kb, kd) and not conflict(kc, kd):
            qa.append((a, b, c, d))
        elif not conflict(ka, kb) and conflict(kb, kc) and not conflict(ka, kc) and not conflict(kc, kd) and conflict(ka, kd):
            qb.append((a, b, c, d))
    rnd.shuffle(qa)
    rnd.shuffle(qb)
    # must-have pairs: a resource written by a task that also claims a table, then read / written by
    # the next one (the run-time add-on check has to refuse it), both orders
    def find(views, res):
        for i, k in enumerate(ks):
            if sorted(k["views"]) == sorted(views) and sorted(k["res"]) == sorted(res) and not k["entry"] and not k["par"]:
                return i
        raise KeyError((views, res))
    ra_w = find([("S", "ref")], [("RA", "mut")])
    ra_r = find([("W", "mut")], [("RA", "ref")])
    rb_w = find([("W", "mut")], [("RB", "mut")])
    rb_r = find([("S", "ref")], [("RB", "ref")])
    rb_w2 = find([("H", "optref")], [("RA", "ref"), ("RB", "mut")])
    # identifier views conflict with nothing: they must not cut a stage
    id_kinds = [i for i, k in enumerate(ks) if k["id"] and not k["par"]]
    ro = [i for i, k in enumerate(ks) if not k["id"] and not k["par"] and not k["res"] and not k["entry"]
          and k["views"] and all(vk in ("ref", "optref") for _, vk in k["views"])]
    id_pairs = [(ro[0], id_kinds[0]), (ro[1], id_kinds[-1]), (id_kinds[0], id_kinds[1]), (id_kinds[-1], ro[2])]
    pn = id_pairs + [p for p in pn if p not in id_pairs]
    must_pairs = [(ra_w, ra_r), (ra_r, ra_w), (rb_w, rb_r), (rb_r, rb_w), (ra_w, ra_w), (rb_w, rb_w2), (rb_w2, ra_w)]
    pc = must_pairs + [p for p in pc if p not in must_pairs]
    # must-have triples: a resource holder sharing its stage with a task that touches no resource,
    # followed by a task that conflicts with the holder through the resource ONLY (disjoint
    # components): what the running stage claimed on resources must survive every task of the stage
    def comp_access(k):
        a = {}
        for c, vk in k["views"] + k["entry"]:
            m = claim(vk)
            a[c] = "w" if (a.get(c) == "w" or m == "w") else "r"
        return a
    def comp_conflict(a, b):
        A, B = comp_access(a), comp_access(b)
        return any(c in B and (m == "w" or B[c] == "w") for c, m in A.items())
    res_tr = []
    plain = [i for i in idx if not ks[i]["par"] and not ks[i]["entry"] and ks[i]["filter"] == ["none"]]
    for a, b, c in itertools.product(plain, repeat=3):
        ka, kb, kc = ks[a], ks[b], ks[c]
        if ka["res"] and ka["views"] and not kb["res"] and kb["views"] and kc["res"] and kc["views"] \
           and not conflict(ka, kb) and conflict(ka, kc) and not comp_conflict(ka, kc) and not conflict(kb, kc) \
           and all(vk in ("ref", "mut") for _, vk in ka["views"] + kb["views"]):
            res_tr.append((a, b, c))
            res_tr.append((b, a, c))
    # the same with a ParSystem between the resource holder and the task that conflicts with it
    # through the resource only (the static grouping threads the stage's resource claims through
    # every kind of task)
    res_par = []
    pars = [i for i in idx if ks[i]["par"] and not ks[i]["res"] and not ks[i]["entry"]]
    for a, c in itertools.product(plain, repeat=2):
        ka, kc = ks[a], ks[c]
        if ka["res"] and kc["res"] and conflict(ka, kc) and not comp_conflict(ka, kc):
            for b in pars:
                if not conflict(ka, ks[b]) and not conflict(ks[b], kc):
                    res_par.append((a, b, c))
    rnd.shuffle(res_par)
    # a resource holder; then a stage of two: the first conflicts with the holder through a component
    # only (so that, on worlds where they touch different tables, it is admitted at run time as an
    # add-on), the second conflicts with the holder through the resource only and must still be
    # refused after the first was admitted
    res_addon = []
    for a, b, c in itertools.product(plain, repeat=3):
        ka, kb, kc = ks[a], ks[b], ks[c]
        if ka["res"] and ka["views"] and kb["views"] and not kb["res"] and kc["res"] \
           and comp_conflict(ka, kb) and conflict(ka, kc) and not comp_conflict(ka, kc) and not conflict(kb, kc):
            res_addon.append((a, b, c))
    rnd.shuffle(res_addon)
    # the instance that is dynamically disjoint on the Has<H> / Not<Has<H>> world: the holder works on
    # the {S,H} rows, the first task of the next stage on the {S} rows (admitted), the second one
    # reads / writes the holder's resource (must be refused)
    def findk(views, filt, res):
        for i, k in enumerate(ks):
            if sorted(k["views"]) == sorted(views) and k["filter"] == filt and sorted(k["res"]) == sorted(res) and not k["entry"] and not k["par"]:
                return i
        raise KeyError((views, filt, res))
    hold = findk([("S", "mut")], ["has", "H"], [("RA", "mut")])
    other = findk([("S", "mut")], ["not", ["has", "H"]], [])
    res_addon = [(hold, other, ra_r), (hold, other, findk([], ["none"], [("RA", "mut")]))] + res_addon
    rnd.shuffle(res_tr)
    triples = [t for t in triples if t not in res_tr and t not in res_par and t not in res_addon]
    if tier == "quick":
        pairs = pc[:36] + pn[:40]
        triples = res_tr[:8] + res_par[:4] + res_addon[:6] + triples[:34]
        quads = qa[:8] + qb[:4]
    else:
        pairs = pc[:300] + pn[:300]
        triples = res_tr[:60] + res_par[:30] + res_addon[:40] + triples[:290]
        quads = qa[:48] + qb[:24]
    return [("p%03d" % i, p) for i, p in enumerate(pairs)] + [("t%03d" % i, t) for i, t in enumerate(triples)] + \
           [("q%03d" % i, q) for i, q in enumerate(quads)]

def cost(tasks):
    return {2: 4.5, 3: 9.5, 4: 19.0}[len(tasks)]

def main(tier, srcdir, nbins=None):
    nbins = nbins or (16 if tier == "quick" else 96)   # rustc memory grows with the cases per bin
    ks = gen_kinds(os.path.join(srcdir, "sched_kinds.rs"))
    outdir = os.path.join(srcdir, "bin")
    cases = family(tier, ks)
    bins = [[] for _ in range(nbins)]
    load = [0.0] * nbins
    for nm, tasks in sorted(cases, key=lambda c: -cost(c[1])):
        i = load.index(min(load))
        bins[i].append((nm, tasks))
        load[i] += cost(tasks)
    tag = tier[0]
    wanted = {"sched_%s%02d.rs" % (tag, i) for i in range(nbins)}
    for f in os.listdir(outdir):
        if f.startswith("sched_%s" % tag) and f.endswith(".rs") and f not in wanted:
            os.remove(os.path.join(outdir, f))
    for i, b in enumerate(bins):
        body = []
        for nm, tasks in sorted(b):
            body.append('    if want("%s") { sched_case!(out, "%s", presets, pools, 400; %s); }' % (nm, nm, ", ".join(item(k, ks[k]) for k in tasks)))
        src = '''// @generated by tools/gen_sched.py (tier %s, bin %d) - do not edit
use brood_verif_harness::sched::*;
use brood_verif_harness::sched_case;
use std::io::Write;
fn main() {
    std::panic::set_hook(Box::new(|_| {}));
    let args: Vec<String> = std::env::args().collect();
    let mut out = std::io::BufWriter::new(std::fs::File::create(&args[1]).unwrap());
    let only: Option<String> = args.get(2).cloned();
    let want = |c: &str| only.as_ref().map(|o| o == c).unwrap_or(true);
    let presets: Vec<usize> = match args.get(3) { Some(p) => vec![p.parse().unwrap()], None => (0..PRESETS.len()).collect() };
    let pools: Vec<usize> = vec![1, 2, 4, 8];
%s
    out.flush().unwrap();
}
''' % (tier, i, "\n".join(body))
        write_if_changed(os.path.join(outdir, "sched_%s%02d.rs" % (tag, i)), src)
    print("%s: %d kinds, %d cases, est. max bin %.0fs" % (tier, len(ks), len(cases), max(load)))

if __name__ == "__main__":
    main(sys.argv[1], sys.argv[2])
