//! placeholder until the generated query family is built
use crate::Wd;
use serde_json::{json, Value};
pub const N_QUERIES: usize = 0;
pub fn run(_world: &mut Wd, _q: usize, _v: u32) -> Value { json!({}) }
