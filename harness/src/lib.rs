//! Conformance harness for brood: executes operation scripts on real `World`s and records one
//! ndjson event per public call, with the arguments, the results, a full observation of every live
//! world (public view + structural dump from the `brood_verif` hook) and the value ledger.
//! The harness holds no reference model: every judgement is made by TLC on the trace.

pub mod comps;
pub mod heap;

#[global_allocator]
static GLOBAL: heap::Tracker = heap::Tracker;
pub mod shapes;
pub mod queries;
pub mod mutate;
pub mod sched;
pub mod sched_kinds;
pub mod regn;

use brood::{
    entity,
    entity::Identifier,
    query::{filter, result, Views},
    resources, Query, Registry, Resources, World,
};
use comps::*;
use serde::{Deserialize, Serialize};
use serde_json::{json, Map, Value};
use std::io::Write;
use std::panic::{catch_unwind, AssertUnwindSafe};

pub type Reg = Registry!(Z, B, S, W, H, T5, T6, T7, T8);
pub type Res = Resources!(RA, RB, RC);
pub type Wd = World<Reg, Res>;
pub const MAXW: usize = 3;

pub fn ids(id: Identifier) -> String {
    let (i, g) = brood::verif::id_parts(id);
    format!("{i}.{g}")
}
pub fn idj(id: Identifier) -> Value {
    Value::String(ids(id))
}
pub fn idp(id: Identifier) -> Value {
    let (i, g) = brood::verif::id_parts(id);
    json!([i, g])
}

pub struct Slot {
    pub world: Wd,
    /// every identifier ever issued in this world's lineage, in order (targets are ordinals here)
    pub issued: Vec<Identifier>,
}

pub fn obs_json(o: Obs) -> Value {
    if o.ok {
        json!({"v": o.v, "t": o.t})
    } else {
        json!({"v": o.v, "t": o.t, "bad": 1})
    }
}

pub fn new_world(vals: [u32; 3]) -> Wd {
    World::with_resources(resources!(RA::fresh(vals[0]), RB::fresh(vals[1]), RC::fresh(vals[2])))
}

/// Public content of a world: every entity with identifier and component values.
pub fn content(world: &mut Wd) -> (Map<String, Value>, usize) {
    let mut ents = Map::new();
    let mut n = 0usize;
    for result!(id, z, b, s, w, h, t5, t6, t7, t8) in world
        .query(Query::<
            Views!(
                entity::Identifier,
                Option<&Z>,
                Option<&B>,
                Option<&S>,
                Option<&W>,
                Option<&H>,
                Option<&T5>,
                Option<&T6>,
                Option<&T7>,
                Option<&T8>
            ),
        >::new())
        .iter
    {
        let mut c = Map::new();
        if let Some(x) = z {
            c.insert("Z".into(), obs_json(x.obs()));
        }
        if let Some(x) = b {
            c.insert("B".into(), obs_json(x.obs()));
        }
        if let Some(x) = s {
            c.insert("S".into(), obs_json(x.obs()));
        }
        if let Some(x) = w {
            c.insert("W".into(), obs_json(x.obs()));
        }
        if let Some(x) = h {
            c.insert("H".into(), obs_json(x.obs()));
        }
        if let Some(x) = t5 {
            c.insert("T5".into(), obs_json(x.obs()));
        }
        if let Some(x) = t6 {
            c.insert("T6".into(), obs_json(x.obs()));
        }
        if let Some(x) = t7 {
            c.insert("T7".into(), obs_json(x.obs()));
        }
        if let Some(x) = t8 {
            c.insert("T8".into(), obs_json(x.obs()));
        }
        ents.insert(ids(id), Value::Object(c));
        n += 1;
    }
    (ents, n)
}

pub fn dump_json(world: &Wd) -> Value {
    let d = world.verif_dump();
    let bits = |bytes: &Vec<u8>| -> u64 {
        let mut x = 0u64;
        for (k, b) in bytes.iter().enumerate() {
            x |= (*b as u64) << (8 * k);
        }
        x
    };
    json!({
        "len": d.len,
        "slots": d.slots.iter().enumerate().map(|(i, s)| json!({"g": s.generation, "a": s.active, "t": s.table, "r": s.row, "id": format!("{}.{}", i, s.generation)})).collect::<Vec<_>>(),
        "free": d.free,
        "tables": d.tables.iter().map(|t| json!({
            "bits": bits(&t.bytes), "len": t.len,
            "ids": t.ids.iter().map(|(i, g)| json!(format!("{i}.{g}"))).collect::<Vec<_>>(),
            "idx": t.ids.iter().map(|(i, _)| json!(i)).collect::<Vec<_>>(),
            "idg": t.ids.iter().map(|(i, g)| json!([i, g])).collect::<Vec<_>>(),
            "idcap": t.ids_capacity.min(1 << 30), "caps": t.capacities.iter().map(|c| (*c).min(1 << 30)).collect::<Vec<_>>(),
        })).collect::<Vec<_>>(),
        "tl": d.type_lookup.iter().map(|l| json!(l.value_table)).collect::<Vec<_>>(),
        "fl": d.foreign_lookup.iter().map(|l| json!([l.key_table, l.value_table])).collect::<Vec<_>>(),
    })
}

pub fn res_json(world: &Wd) -> Value {
    json!({
        "RA": obs_json(world.get::<RA, _>().obs()),
        "RB": obs_json(world.get::<RB, _>().obs()),
        "RC": obs_json(world.get::<RC, _>().obs()),
    })
}

/// `World::extend` with a batch written with the `entities!` macro.  form "clone": `entities!((..); n)`
/// (all rows are clones of the first); form "tuples": `entities!((..), (..), ..)` with 1..3 rows.
/// Only a fixed set of written orders is available (the macro needs the shape at compile time).
pub fn macro_extend(world: &mut Wd, form: &str, order: &[u8], rows: &[[u32; NC]]) -> Vec<Identifier> {
    use brood::entities;
    let n = rows.len();
    macro_rules! clone_form {
        ($($c:ident $i:literal),*) => {{
            assert!(rows.iter().all(|r| r == &rows[0]) || n == 0, "harness: clone form needs equal rows");
            let z = [0u32; NC];
            let v = if n > 0 { &rows[0] } else { &z };
            let b = entities!(($($c::fresh(v[$i])),*); n);
            heap::lib(|| world.extend(b))
        }};
    }
    macro_rules! tuple_form {
        ($($c:ident $i:literal),*) => {{
            match n {
                1 => { let b = entities!(($($c::fresh(rows[0][$i])),*)); heap::lib(|| world.extend(b)) }
                2 => { let b = entities!(($($c::fresh(rows[0][$i])),*), ($($c::fresh(rows[1][$i])),*)); heap::lib(|| world.extend(b)) }
                3 => { let b = entities!(($($c::fresh(rows[0][$i])),*), ($($c::fresh(rows[1][$i])),*), ($($c::fresh(rows[2][$i])),*)); heap::lib(|| world.extend(b)) }
                _ => panic!("harness: tuple form supports 1..3 rows"),
            }
        }};
    }
    match (form, order) {
        ("clone", []) => { let b = entities!((); n); heap::lib(|| world.extend(b)) }
        ("clone", [2]) => clone_form!(S 2),
        ("clone", [3, 2]) => clone_form!(W 3, S 2),
        ("clone", [4, 1, 0]) => clone_form!(H 4, B 1, Z 0),
        ("clone", [8, 2]) => clone_form!(T8 8, S 2),
        ("tuples", []) => match n {
            1 => { let b = entities!(()); heap::lib(|| world.extend(b)) }
            2 => { let b = entities!((), ()); heap::lib(|| world.extend(b)) }
            3 => { let b = entities!((), (), ()); heap::lib(|| world.extend(b)) }
            _ => panic!("harness: tuple form supports 1..3 rows"),
        },
        ("tuples", [2]) => tuple_form!(S 2),
        ("tuples", [3, 2]) => tuple_form!(W 3, S 2),
        ("tuples", [4, 1, 0]) => tuple_form!(H 4, B 1, Z 0),
        ("tuples", [8, 2]) => tuple_form!(T8 8, S 2),
        _ => panic!("harness: no macro batch for {form} {order:?}"),
    }
}

pub struct Driver {
    pub ws: Vec<Option<Slot>>,
    pub out: Box<dyn Write>,
    pub nev: usize,
    pub dead: bool,
    pub light: bool,
    /// write-ahead file: the op about to be executed (so that a crash can be attributed)
    pub wal: Option<String>,
    /// generated query family (lives in the driver binary so that the library stays small)
    pub qfamily: Option<QFamily>,
}

#[derive(Clone, Copy)]
pub struct QFamily {
    pub n: usize,
    pub run: fn(&mut Wd, usize, u32, Option<Identifier>, u32) -> Value,
    pub needs_target: fn(usize) -> bool,
}

#[derive(Serialize, Deserialize)]
struct Dummy;

impl Driver {
    pub fn new(out: Box<dyn Write>) -> Self {
        Driver { ws: (0..MAXW).map(|_| None).collect(), out, nev: 0, dead: false, light: false, wal: None, qfamily: None }
    }

    pub fn slot(&mut self, w: usize) -> &mut Slot {
        self.ws[w - 1].as_mut().expect("harness: op on dead world")
    }

    fn resolve(&mut self, w: usize, e: &Value) -> Identifier {
        if let Some(k) = e.get("k").and_then(|k| k.as_u64()) {
            let s = self.slot(w);
            if s.issued.is_empty() {
                // nothing issued yet in this lineage: an identifier that was never issued
                return brood::verif::id_from_parts(0, 0);
            }
            s.issued[(k as usize - 1) % s.issued.len()]
        } else if let Some(f) = e.get("forge") {
            brood::verif::id_from_parts(f[0].as_u64().unwrap() as usize, f[1].as_u64().unwrap())
        } else {
            panic!("harness: bad target {e}")
        }
    }

    /// Observation of all worlds after an event.
    pub fn observe(&mut self) -> Value {
        let mut ws = Vec::new();
        let n = self.ws.len();
        for i in 0..n {
            if self.ws[i].is_none() {
                ws.push(json!({"live": false}));
                continue;
            }
            if self.light {
                // structure only: reads the allocator and table headers, never a row
                let s = self.ws[i].as_ref().unwrap();
                ws.push(json!({"live": true, "dump": dump_json(&s.world)}));
                continue;
            }
            let mut eqs = Vec::new();
            for j in 0..n {
                let e = match (&self.ws[i], &self.ws[j]) {
                    (Some(a), Some(b)) => a.world == b.world,
                    _ => false,
                };
                eqs.push(e);
            }
            let s = self.ws[i].as_mut().unwrap();
            let (ents, nents) = content(&mut s.world);
            let mut probes = Map::new();
            let mut targets: Vec<Identifier> = s.issued.clone();
            // forged identifiers: a generation ahead / behind of every issued index, and an index
            // past the end
            let mut forged = Vec::new();
            for id in s.issued.iter() {
                let (i, g) = brood::verif::id_parts(*id);
                forged.push(brood::verif::id_from_parts(i, g + 1));
            }
            forged.push(brood::verif::id_from_parts(s.issued.len() + 7, 0));
            forged.sort_by_key(|x| brood::verif::id_parts(*x));
            forged.dedup();
            targets.extend(forged);
            // Entries::entry probe (inside a query that declares entry views)
            let mut eprobes = Vec::new();
            {
                let mut r = s.world.query(Query::<Views!(), filter::None, Views!(), Views!(&S)>::new());
                for id in targets.iter() {
                    eprobes.push(r.entries.entry(*id).is_some());
                }
            }
            for (k, id) in targets.iter().enumerate() {
                let con = s.world.contains(*id);
                let mut via = Map::new();
                let ent = match s.world.entry(*id) {
                    Some(mut e) => {
                        // which entity does the identifier land on? (tokens seen through the entry)
                        if let Some(result!(ps, pw, ph)) = e.query(Query::<Views!(Option<&S>, Option<&W>, Option<&H>)>::new()) {
                            if let Some(x) = ps { via.insert("S".into(), json!(x.obs().t)); }
                            if let Some(x) = pw { via.insert("W".into(), json!(x.obs().t)); }
                            if let Some(x) = ph { via.insert("H".into(), json!(x.obs().t)); }
                        }
                        true
                    }
                    None => false,
                };
                probes.insert(ids(*id), json!({"con": con, "ent": ent, "ee": eprobes[k], "via": Value::Object(via)}));
            }
            ws.push(json!({
                "live": true,
                "len": s.world.len(),
                "empty": s.world.is_empty(),
                "ents": Value::Object(ents),
                "nents": nents,
                "probes": Value::Object(probes),
                "nissued": s.issued.len(),
                "res": res_json(&s.world),
                "eq": eqs,
                "dump": dump_json(&s.world),
            }));
        }
        json!({ "ws": ws })
    }

    pub fn emit(&mut self, mut ev: Value) {
        let led = drain_ledger();
        let hp = heap::drain();
        let o = self.observe();
        heap::drain(); // observation is not a library-protocol subject
        let extra = drain_ledger(); // observation must not create or drop anything
        let m = ev.as_object_mut().unwrap();
        m.insert(
            "led".into(),
            Value::Array(
                led.iter()
                    .chain(extra.iter())
                    .map(|l| json!({"k": l.k, "c": l.c, "t": l.t, "f": l.f}))
                    .collect(),
            ),
        );
        m.insert(
            "heap".into(),
            Value::Array(
                hp.iter()
                    .map(|h| json!({"k": h.k, "id": h.id, "s": h.size, "al": h.align, "ns": h.new_size, "nid": h.new_id,
                                    "st": h.state, "ks": h.ksize, "ka": h.kalign, "lib": h.in_lib}))
                    .collect(),
            ),
        );
        m.insert("obs".into(), o);
        if !m.contains_key("panic") {
            m.insert("panic".into(), json!(false));
        }
        if !m.contains_key("res") {
            m.insert("res".into(), json!({}));
        }
        if self.light {
            m.insert("light".into(), json!(true));
        }
        serde_json::to_writer(&mut self.out, &ev).unwrap();
        self.out.write_all(b"\n").unwrap();
        self.out.flush().unwrap();
        self.nev += 1;
    }

    /// Execute one scripted operation and emit its event. Returns false if the history must stop.
    pub fn exec(&mut self, op: &Value) -> bool {
        if let Some(p) = &self.wal {
            let _ = std::fs::write(p, op.to_string());
        }
        let mut ev = op.clone();
        let name = op["op"].as_str().unwrap().to_string();
        let w = op.get("w").and_then(|x| x.as_u64()).unwrap_or(0) as usize;
        let r = catch_unwind(AssertUnwindSafe(|| self.exec_inner(&name, w, op)));
        match r {
            Ok(res) => {
                for (k, v) in res.as_object().unwrap() {
                    ev[k] = v.clone();
                }
                self.emit(ev);
                true
            }
            Err(p) => {
                let msg = if let Some(s) = p.downcast_ref::<String>() {
                    s.clone()
                } else if let Some(s) = p.downcast_ref::<&str>() {
                    s.to_string()
                } else {
                    "?".into()
                };
                if msg.starts_with("harness:") {
                    eprintln!("HARNESS-ERROR {msg} in {op}");
                    std::process::exit(2);
                }
                // a panic inside the library on a fault-free history is data: record it, forget
                // the worlds (their state is unknown) and stop this history.
                ev["panic"] = json!(true);
                ev["panicmsg"] = json!(msg);
                ev["op"] = json!("panicked");
                ev["was"] = json!(name);
                for s in self.ws.iter_mut() {
                    if let Some(s) = s.take() {
                        std::mem::forget(s);
                    }
                }
                drain_ledger();
                self.emit(ev);
                false
            }
        }
    }

    fn order_of(op: &Value) -> Vec<u8> {
        op["order"].as_array().unwrap().iter().map(|x| x.as_u64().unwrap() as u8).collect()
    }
    fn vals_of(v: &Value) -> [u32; NC] {
        let a = v.as_array().unwrap();
        let mut r = [0u32; NC];
        for i in 0..NC {
            r[i] = a.get(i).and_then(|x| x.as_u64()).unwrap_or(7 + i as u64) as u32;
        }
        r
    }

    fn exec_inner(&mut self, name: &str, w: usize, op: &Value) -> Value {
        match name {
            "reset" => {
                // drop every world: afterwards the ledger must be empty (checked by TLC)
                for s in self.ws.iter_mut() {
                    let old = s.take();
                    heap::lib(move || drop(old));
                }
                json!({})
            }
            "new" => {
                let v = op["vals"].as_array().unwrap();
                let vals = [v[0].as_u64().unwrap() as u32, v[1].as_u64().unwrap() as u32, v[2].as_u64().unwrap() as u32];
                assert!(self.ws[w - 1].is_none(), "harness: new on live world");
                self.ws[w - 1] = Some(Slot { world: heap::lib(|| new_world(vals)), issued: Vec::new() });
                json!({})
            }
            "drop" => {
                assert!(self.ws[w - 1].is_some(), "harness: drop on dead world");
                let old = self.ws[w - 1].take();
                heap::lib(move || drop(old));
                json!({})
            }
            "insert" => {
                let order = Self::order_of(op);
                let vals = Self::vals_of(&op["vals"]);
                let s = self.slot(w);
                let id = shapes::insert(&mut s.world, &order, &vals);
                s.issued.push(id);
                json!({"res": {"id": idj(id)}})
            }
            "extend" => {
                let order = Self::order_of(op);
                let rows: Vec<[u32; NC]> = op["rows"].as_array().unwrap().iter().map(Self::vals_of).collect();
                let extra = op.get("extra").and_then(|x| x.as_u64()).unwrap_or(0) as usize;
                let s = self.slot(w);
                let ids = match op.get("form").and_then(|f| f.as_str()) {
                    // the batch written with the entities! macro (tuple list / component tuple + count)
                    Some(form) => macro_extend(&mut s.world, form, &order, &rows),
                    None => shapes::extend(&mut s.world, &order, &rows, extra),
                };
                s.issued.extend(ids.iter().copied());
                json!({"res": {"ids": ids.iter().map(|i| idj(*i)).collect::<Vec<_>>()}})
            }
            "extend_ragged" => {
                // columns of different lengths through the SAFE constructor Batch::new: must panic
                let lens: Vec<usize> = op["lens"].as_array().unwrap().iter().map(|x| x.as_u64().unwrap() as usize).collect();
                let s = self.slot(w);
                let world = &mut s.world;
                let r = std::panic::catch_unwind(AssertUnwindSafe(|| {
                    use brood::entities::{Batch, Null};
                    let c0: Vec<S> = (0..lens[0]).map(|k| S::fresh(k as u32)).collect();
                    let c1: Vec<W> = (0..lens[1]).map(|k| W::fresh(k as u32)).collect();
                    let c2: Vec<H> = (0..lens[2]).map(|k| H::fresh(k as u32)).collect();
                    if lens.len() == 3 {
                        let b = Batch::new((c0, (c1, (c2, Null))));
                        heap::lib(|| world.extend(b))
                    } else {
                        let c3: Vec<T8> = (0..lens[3]).map(|k| T8::fresh(k as u32)).collect();
                        let b = Batch::new((c0, (c1, (c2, (c3, Null)))));
                        heap::lib(|| world.extend(b))
                    }
                }));
                match r {
                    Err(_) => json!({"res": {"rejected": true}}),
                    Ok(ids) => {
                        s.issued.extend(ids.iter().copied());
                        json!({"res": {"rejected": false, "ids": ids.iter().map(|i| idj(*i)).collect::<Vec<_>>()}})
                    }
                }
            }
            "remove" => {
                let id = self.resolve(w, &op["e"]);
                { let s = self.slot(w); heap::lib(|| s.world.remove(id)); }
                json!({"id": idj(id), "idp": idp(id)})
            }
            "clear" => {
                { let s = self.slot(w); heap::lib(|| s.world.clear()); }
                json!({})
            }
            "add" => {
                let id = self.resolve(w, &op["e"]);
                let c = op["c"].as_u64().unwrap();
                let v = op["v"].as_u64().unwrap() as u32;
                let s = self.slot(w);
                let found = match s.world.entry(id) {
                    Some(mut e) => {
                        match c {
                            0 => { let x = Z::fresh(v); heap::lib(|| e.add(x)) }
                            1 => { let x = B::fresh(v); heap::lib(|| e.add(x)) }
                            2 => { let x = S::fresh(v); heap::lib(|| e.add(x)) }
                            3 => { let x = W::fresh(v); heap::lib(|| e.add(x)) }
                            4 => { let x = H::fresh(v); heap::lib(|| e.add(x)) }
                            5 => { let x = T5::fresh(v); heap::lib(|| e.add(x)) }
                            6 => { let x = T6::fresh(v); heap::lib(|| e.add(x)) }
                            7 => { let x = T7::fresh(v); heap::lib(|| e.add(x)) }
                            8 => { let x = T8::fresh(v); heap::lib(|| e.add(x)) }
                            _ => panic!("harness: bad comp"),
                        }
                        true
                    }
                    None => false,
                };
                json!({"id": idj(id), "idp": idp(id), "res": {"found": found}})
            }
            "add2" => {
                // two shape changes through one Entry handle (the handle's cached location must
                // follow the entity)
                let id = self.resolve(w, &op["e"]);
                let c = op["c"].as_u64().unwrap();
                let c2 = op["c2"].as_u64().unwrap();
                let v = op["v"].as_u64().unwrap() as u32;
                let s = self.slot(w);
                let found = match s.world.entry(id) {
                    Some(mut e) => {
                        for (k, cc) in [(0, c), (1, c2)] {
                            let rm = op["rm"][k].as_bool().unwrap();
                            match (cc, rm) {
                                (0, false) => { let x = Z::fresh(v); heap::lib(|| e.add(x)) }
                                (1, false) => { let x = B::fresh(v); heap::lib(|| e.add(x)) }
                                (2, false) => { let x = S::fresh(v); heap::lib(|| e.add(x)) }
                                (3, false) => { let x = W::fresh(v); heap::lib(|| e.add(x)) }
                                (4, false) => { let x = H::fresh(v); heap::lib(|| e.add(x)) }
                                (5, false) => { let x = T5::fresh(v); heap::lib(|| e.add(x)) }
                                (6, false) => { let x = T6::fresh(v); heap::lib(|| e.add(x)) }
                                (7, false) => { let x = T7::fresh(v); heap::lib(|| e.add(x)) }
                                (8, false) => { let x = T8::fresh(v); heap::lib(|| e.add(x)) }
                                (0, true) => heap::lib(|| e.remove::<Z, _>()),
                                (1, true) => heap::lib(|| e.remove::<B, _>()),
                                (2, true) => heap::lib(|| e.remove::<S, _>()),
                                (3, true) => heap::lib(|| e.remove::<W, _>()),
                                (4, true) => heap::lib(|| e.remove::<H, _>()),
                                (5, true) => heap::lib(|| e.remove::<T5, _>()),
                                (6, true) => heap::lib(|| e.remove::<T6, _>()),
                                (7, true) => heap::lib(|| e.remove::<T7, _>()),
                                (8, true) => heap::lib(|| e.remove::<T8, _>()),
                                _ => panic!("harness: bad comp"),
                            }
                        }
                        true
                    }
                    None => false,
                };
                json!({"id": idj(id), "idp": idp(id), "res": {"found": found}})
            }
            "remc" => {
                let id = self.resolve(w, &op["e"]);
                let c = op["c"].as_u64().unwrap();
                let s = self.slot(w);
                let found = match s.world.entry(id) {
                    Some(mut e) => {
                        match c {
                            0 => heap::lib(|| e.remove::<Z, _>()),
                            1 => heap::lib(|| e.remove::<B, _>()),
                            2 => heap::lib(|| e.remove::<S, _>()),
                            3 => heap::lib(|| e.remove::<W, _>()),
                            4 => heap::lib(|| e.remove::<H, _>()),
                            5 => heap::lib(|| e.remove::<T5, _>()),
                            6 => heap::lib(|| e.remove::<T6, _>()),
                            7 => heap::lib(|| e.remove::<T7, _>()),
                            8 => heap::lib(|| e.remove::<T8, _>()),
                            _ => panic!("harness: bad comp"),
                        }
                        true
                    }
                    None => false,
                };
                json!({"id": idj(id), "idp": idp(id), "res": {"found": found}})
            }
            "qmut" => {
                let c = op["c"].as_u64().unwrap();
                let v = op["v"].as_u64().unwrap() as u32;
                let mode = op["mode"].as_str().unwrap();
                let target = if mode == "all" { None } else { Some(self.resolve(w, &op["e"])) };
                let s = self.slot(w);
                let n = heap::lib(|| queries::qmut(&mut s.world, c, v, mode, target));
                match target {
                    Some(id) => json!({"id": idj(id), "res": {"n": n}}),
                    None => json!({"res": {"n": n}}),
                }
            }
            "reserve" => {
                let order = Self::order_of(op);
                let n = op["n"].as_u64().unwrap() as usize;
                shapes::reserve(&mut self.slot(w).world, &order, n);
                json!({})
            }
            "shrink" => {
                { let s = self.slot(w); heap::lib(|| s.world.shrink_to_fit()); }
                json!({})
            }
            "clone" => {
                let dst = op["dst"].as_u64().unwrap() as usize;
                assert!(self.ws[dst - 1].is_none(), "harness: clone into live world");
                let s = self.slot(w);
                let c = Slot { world: heap::lib(|| s.world.clone()), issued: s.issued.clone() };
                self.ws[dst - 1] = Some(c);
                json!({})
            }
            "clone_from" => {
                let src = op["src"].as_u64().unwrap() as usize;
                assert!(src != w, "harness: clone_from self");
                let mut d = self.ws[w - 1].take().expect("harness: clone_from dead dst");
                {
                    let s = self.ws[src - 1].as_ref().expect("harness: clone_from dead src");
                    heap::lib(|| d.world.clone_from(&s.world));
                    d.issued = s.issued.clone();
                }
                self.ws[w - 1] = Some(d);
                json!({})
            }
            "serde" => {
                let dst = op["dst"].as_u64().unwrap() as usize;
                assert!(self.ws[dst - 1].is_none(), "harness: serde into live world");
                let enc = op["enc"].as_str().unwrap();
                let s = self.slot(w);
                let r: Result<Wd, String> = heap::lib(|| match enc {
                    "json" => match serde_json::to_string(&s.world) {
                        Ok(text) => serde_json::from_str::<Wd>(&text).map_err(|e| format!("de: {e}")),
                        Err(e) => Err(format!("ser: {e}")),
                    },
                    "tok_hr" | "tok_bin" => {
                        let hr = enc == "tok_hr";
                        let ser = serde_assert::Serializer::builder().is_human_readable(hr).build();
                        match s.world.serialize(&ser) {
                            Ok(tokens) => {
                                let mut de = serde_assert::Deserializer::builder()
                                    .tokens(tokens)
                                    .is_human_readable(hr)
                                    .build();
                                Wd::deserialize(&mut de).map_err(|e| format!("de: {e}"))
                            }
                            Err(e) => Err(format!("ser: {e}")),
                        }
                    }
                    _ => panic!("harness: bad enc"),
                });
                match r {
                    Ok(world) => {
                        let issued = s.issued.clone();
                        self.ws[dst - 1] = Some(Slot { world, issued });
                        json!({"res": {"ok": true}})
                    }
                    Err(e) => json!({"res": {"ok": false, "err": e}}),
                }
            }
            "deser_mut" => {
                // C11: serialize world w, mutate the encoding, try to deserialize into slot dst
                let dst = op["dst"].as_u64().unwrap() as usize;
                assert!(self.ws[dst - 1].is_none(), "harness: deser_mut into live world");
                let enc = op["enc"].as_str().unwrap().to_string();
                let kind = op["mkind"].as_str().unwrap().to_string();
                let pos = op["mpos"].as_u64().unwrap() as usize;
                let s = self.slot(w);
                let (r, desc, same): (Result<Wd, String>, String, bool) = match enc.as_str() {
                    "json" => {
                        let text = serde_json::to_string(&s.world).unwrap();
                        let (m, d) = mutate::mutate_json(&text, &kind, pos);
                        let same = m == text;
                        (heap::lib(|| serde_json::from_str::<Wd>(&m).map_err(|e| format!("{e}"))), d, same)
                    }
                    _ => {
                        let hr = enc == "tok_hr";
                        let ser = serde_assert::Serializer::builder().is_human_readable(hr).build();
                        let tokens = s.world.serialize(&ser).unwrap();
                        let (m, d) = mutate::mutate_tokens(&tokens.0, &kind, pos);
                        let same = format!("{:?}", m) == format!("{:?}", tokens.0);
                        let mut de = serde_assert::Deserializer::builder()
                            .tokens(serde_assert::Tokens(m))
                            .is_human_readable(hr)
                            .self_describing(false)
                            .build();
                        (heap::lib(|| Wd::deserialize(&mut de).map_err(|e| format!("{e}"))), d, same)
                    }
                };
                match r {
                    Ok(world) => {
                        // the lineage of a world built from untrusted input: the identifiers it holds
                        let mut world = world;
                        let mut issued = Vec::new();
                        for result!(id) in world.query(Query::<Views!(entity::Identifier)>::new()).iter {
                            issued.push(id);
                        }
                        issued.sort_by_key(|x| brood::verif::id_parts(*x));
                        self.ws[dst - 1] = Some(Slot { world, issued });
                        json!({"res": {"ok": true, "mut": desc, "same": same}})
                    }
                    Err(e) => json!({"res": {"ok": false, "err": e.chars().take(120).collect::<String>(), "mut": desc, "same": same}}),
                }
            }
            "deser_struct" => {
                // C11 with a specification-side oracle: JSON encoding + structured mutations (Serde.tla)
                let dst = op["dst"].as_u64().unwrap() as usize;
                assert!(self.ws[dst - 1].is_none(), "harness: deser_struct into live world");
                let muts: Vec<Value> = op["muts"].as_array().unwrap().clone();
                let s = self.slot(w);
                let text = serde_json::to_string(&s.world).unwrap();
                let m = mutate::apply_struct_muts(&text, &muts);
                let r = heap::lib(|| serde_json::from_str::<Wd>(&m).map_err(|e| format!("{e}")));
                match r {
                    Ok(world) => {
                        let mut world = world;
                        let mut issued = Vec::new();
                        for result!(id) in world.query(Query::<Views!(entity::Identifier)>::new()).iter {
                            issued.push(id);
                        }
                        issued.sort_by_key(|x| brood::verif::id_parts(*x));
                        self.ws[dst - 1] = Some(Slot { world, issued });
                        json!({"res": {"ok": true, "same": m == text}})
                    }
                    Err(e) => json!({"res": {"ok": false, "same": m == text, "err": e.chars().take(120).collect::<String>()}}),
                }
            }
            "getmut" => {
                let r = op["r"].as_u64().unwrap();
                let v = op["v"].as_u64().unwrap() as u32;
                let s = self.slot(w);
                let o = match r {
                    0 => {
                        let x = heap::lib(|| s.world.get_mut::<RA, _>());
                        x.set(v);
                        x.obs()
                    }
                    1 => {
                        let x = s.world.get_mut::<RB, _>();
                        x.set(v);
                        x.obs()
                    }
                    2 => {
                        let x = s.world.get_mut::<RC, _>();
                        x.set(v);
                        x.obs()
                    }
                    _ => panic!("harness: bad res"),
                };
                json!({"res": {"got": obs_json(o)}})
            }
            "viewres" => {
                let variant = op["variant"].as_u64().unwrap() as usize;
                let v = op["v"].as_u64().unwrap() as u32;
                let s = self.slot(w);
                heap::lib(|| queries::viewres(&mut s.world, variant, v))
            }
            "query" => {
                let qf = self.qfamily.expect("harness: no query family");
                let q = op["q"].as_u64().unwrap() as usize % qf.n;
                let v = op["v"].as_u64().unwrap() as u32;
                let target = if (qf.needs_target)(q) { Some(self.resolve(w, &op["e"])) } else { None };
                let st = op.get("st").and_then(|x| x.as_u64()).unwrap_or(0) as u32;
                let pool = op.get("pool").and_then(|x| x.as_u64()).unwrap_or(0) as usize;
                let s = self.slot(w);
                let mut r = if pool > 0 {
                    let p = rayon::ThreadPoolBuilder::new().num_threads(pool).build().unwrap();
                    let world = &mut s.world;
                    p.install(move || (qf.run)(world, q, v, target, st))
                } else {
                    heap::lib(|| (qf.run)(&mut s.world, q, v, target, st))
                };
                if let Some(t) = target {
                    r["id"] = idj(t);
                }
                r
            }
            _ => panic!("harness: unknown op {name}"),
        }
    }
}
