//! Registries of other sizes than the main 9-component one.  The archetype identifier is a bit set
//! of `ceil(N / 8)` bytes, and a good part of the library's arithmetic depends on `N % 8` (padding
//! bits of the wire form, byte-wise iteration over the identifier, column index selection across a
//! byte boundary).  Every case here is self-contained: build a world over `K<0> .. K<N-1>` from a
//! list of component masks, change some shapes, remove some entities, observe, round-trip through
//! serde, observe both worlds again after identical further operations.  One ndjson event per case;
//! the judgement is made by TLC (spec/TraceRegN.tla against spec/RegN.tla).

use brood::{
    entity,
    entity::Identifier,
    query::{result, Views},
    verif::id_parts,
    Query, Registry, World,
};
use serde::{Deserialize, Serialize};
use serde_json::{json, Value};

#[derive(Clone, Debug, PartialEq, Serialize, Deserialize)]
pub struct K<const I: usize>(pub u32);

fn bits(bytes: &[u8]) -> u64 {
    let mut x = 0u64;
    for (k, b) in bytes.iter().enumerate() {
        x |= (*b as u64) << (8 * k);
    }
    x
}

macro_rules! regn {
    ($name:ident, $n:expr, [$($i:literal),*]) => {
        pub mod $name {
            use super::*;
            pub type R = Registry!($(K<$i>),*);
            pub type Wn = World<R>;
            pub const N: usize = $n;

            fn add(w: &mut Wn, id: Identifier, c: usize, v: u32) {
                let mut e = w.entry(id).expect("harness: regn add on dead entity");
                match c {
                    $($i => { e.add(K::<$i>(v)); })*
                    _ => panic!("harness: regn component out of range"),
                }
            }

            fn remc(w: &mut Wn, id: Identifier, c: usize) {
                let mut e = w.entry(id).expect("harness: regn remc on dead entity");
                match c {
                    $($i => { e.remove::<K<$i>, _>(); })*
                    _ => panic!("harness: regn component out of range"),
                }
            }

            fn count(w: &mut Wn, c: usize) -> (u64, u64) {
                match c {
                    $($i => {
                        let mut n = 0u64;
                        let mut s = 0u64;
                        for result!(k) in w.query(Query::<Views!(&K<$i>)>::new()).iter {
                            n += 1;
                            s += k.0 as u64;
                        }
                        (n, s)
                    })*
                    _ => panic!("harness: regn component out of range"),
                }
            }

            fn observe(w: &mut Wn, ids: &[Identifier]) -> Value {
                let counts: Vec<Value> = (0..N).map(|c| { let (n, s) = count(w, c); json!([n, s]) }).collect();
                let d = w.verif_dump();
                let place: Vec<Value> = ids.iter().map(|i| {
                    let (x, g) = id_parts(*i);
                    match d.slots.get(x) {
                        Some(s) if s.active && s.generation == g && s.table >= 0 => {
                            let t = &d.tables[s.table as usize];
                            let hit = t.ids.get(s.row).map_or(false, |p| *p == (x, g)) && s.row < t.len;
                            json!({"live": true, "bits": bits(&t.bytes), "rowok": hit})
                        }
                        _ => json!({"live": false, "bits": 0, "rowok": true}),
                    }
                }).collect();
                json!({
                    "len": w.len(),
                    "counts": counts,
                    "alive": ids.iter().map(|i| w.contains(*i)).collect::<Vec<_>>(),
                    "place": place,
                    "tables": d.tables.iter().map(|t| json!({"bits": bits(&t.bytes), "nb": t.bytes.len(), "len": t.len})).collect::<Vec<_>>(),
                    "slots": d.slots.len(),
                    "free": d.free,
                })
            }

            pub fn run(op: &Value) -> Value {
                let masks: Vec<u64> = op["masks"].as_array().unwrap().iter().map(|x| x.as_u64().unwrap()).collect();
                let remcs: Vec<(usize, usize)> = op["remcs"].as_array().unwrap().iter().map(|x| (x[0].as_u64().unwrap() as usize, x[1].as_u64().unwrap() as usize)).collect();
                let removes: Vec<usize> = op["removes"].as_array().unwrap().iter().map(|x| x.as_u64().unwrap() as usize).collect();
                let enc = op["enc"].as_str().unwrap();
                let mut w = Wn::new();
                let mut ids = Vec::new();
                for (e, m) in masks.iter().enumerate() {
                    let id = w.insert(entity!());
                    ids.push(id);
                    for c in 0..N {
                        if (m >> c) & 1 == 1 {
                            add(&mut w, id, c, (1000 * (e + 1) + c) as u32);
                        }
                    }
                }
                for (e, c) in &remcs {
                    remc(&mut w, ids[*e], *c);
                }
                for e in &removes {
                    w.remove(ids[*e]);
                }
                let pre = observe(&mut w, &ids);
                let clone_eq = w.clone() == w;
                let mut wire: Vec<Value> = Vec::new();
                let mut pad = "na".to_string();
                let mut bad = serde_json::Map::new();
                let r: Result<Wn, String> = match enc {
                    "json" => {
                        let text = serde_json::to_string(&w).unwrap();
                        let v: Value = serde_json::from_str(&text).unwrap();
                        if let Some(archs) = v[0].as_array() {
                            for a in archs {
                                wire.push(a[0].clone());
                            }
                            // a set padding bit in the last identifier byte (exists iff N % 8 != 0)
                            if N % 8 != 0 && !archs.is_empty() {
                                let mut m = v.clone();
                                let last = m[0][0][0].as_array().unwrap().len() - 1;
                                let b = m[0][0][0][last].as_u64().unwrap() | (1 << (N % 8));
                                m[0][0][0][last] = Value::from(b);
                                pad = match serde_json::from_value::<Wn>(m) {
                                    Ok(_) => "accepted".into(),
                                    Err(_) => "rejected".into(),
                                };
                            }
                        }
                        if let Some(archs) = v[0].as_array() {
                            if !archs.is_empty() {
                                let verdict = |m: Value| -> &'static str {
                                    match serde_json::from_value::<Wn>(m) { Ok(_) => "accepted", Err(_) => "rejected" }
                                };
                                // an identifier of the wrong width (one byte short / one byte long)
                                let mut m = v.clone();
                                m[0][0][0].as_array_mut().unwrap().pop();
                                bad.insert("short".into(), json!(verdict(m)));
                                let mut m = v.clone();
                                m[0][0][0].as_array_mut().unwrap().push(json!(0));
                                bad.insert("long".into(), json!(verdict(m)));
                                // the same table twice
                                let mut m = v.clone();
                                let first = m[0][0].clone();
                                m[0].as_array_mut().unwrap().push(first);
                                bad.insert("dup".into(), json!(verdict(m)));
                            }
                        }
                        serde_json::from_str::<Wn>(&text).map_err(|e| format!("{e}"))
                    }
                    "tok_hr" | "tok_bin" => {
                        let hr = enc == "tok_hr";
                        let ser = serde_assert::Serializer::builder().is_human_readable(hr).build();
                        let tokens = w.serialize(&ser).unwrap();
                        let mut de = serde_assert::Deserializer::builder().tokens(tokens).is_human_readable(hr).build();
                        Wn::deserialize(&mut de).map_err(|e| format!("{e}"))
                    }
                    _ => panic!("harness: bad enc"),
                };
                match r {
                    Err(e) => json!({"pre": pre, "clone_eq": clone_eq, "wire": wire, "pad": pad, "bad": Value::Object(bad.clone()), "ok": false, "err": e,
                                     "eq": false, "same_ids": false, "post": pre, "post2": pre}),
                    Ok(mut w2) => {
                        let eq = w2 == w && w == w2;
                        // identical further operations on both worlds
                        let mut same_ids = true;
                        let mut ids2 = ids.clone();
                        let mut ids1 = ids.clone();
                        for k in 0..2 {
                            let a = w.insert(entity!());
                            let b = w2.insert(entity!());
                            same_ids &= id_parts(a) == id_parts(b);
                            add(&mut w, a, N - 1, 77 + k);
                            add(&mut w2, b, N - 1, 77 + k);
                            ids1.push(a);
                            ids2.push(b);
                        }
                        if let Some(first) = (0..masks.len()).find(|e| !removes.contains(e)) {
                            w.remove(ids[first]);
                            w2.remove(ids[first]);
                        }
                        let post = observe(&mut w, &ids1);
                        let post2 = observe(&mut w2, &ids2);
                        json!({"pre": pre, "clone_eq": clone_eq, "wire": wire, "pad": pad, "bad": Value::Object(bad.clone()), "ok": true, "err": "",
                               "eq": eq, "same_ids": same_ids, "post": post, "post2": post2})
                    }
                }
            }
        }
    };
}

regn!(r1, 1, [0]);
regn!(r7, 7, [0, 1, 2, 3, 4, 5, 6]);
regn!(r8, 8, [0, 1, 2, 3, 4, 5, 6, 7]);
regn!(r15, 15, [0, 1, 2, 3, 4, 5, 6, 7, 8, 9, 10, 11, 12, 13, 14]);
regn!(r16, 16, [0, 1, 2, 3, 4, 5, 6, 7, 8, 9, 10, 11, 12, 13, 14, 15]);
regn!(r17, 17, [0, 1, 2, 3, 4, 5, 6, 7, 8, 9, 10, 11, 12, 13, 14, 15, 16]);
regn!(r24, 24, [0, 1, 2, 3, 4, 5, 6, 7, 8, 9, 10, 11, 12, 13, 14, 15, 16, 17, 18, 19, 20, 21, 22, 23]);

pub const SIZES: [usize; 7] = [1, 7, 8, 15, 16, 17, 24];

pub fn run(op: &Value) -> Value {
    match op["n"].as_u64().unwrap() {
        1 => r1::run(op),
        7 => r7::run(op),
        8 => r8::run(op),
        15 => r15::run(op),
        16 => r16::run(op),
        17 => r17::run(op),
        24 => r24::run(op),
        _ => panic!("harness: no registry of that size"),
    }
}
