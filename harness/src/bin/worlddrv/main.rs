//! World driver: executes op scripts (ndjson) or seeded random histories on real worlds and writes
//! the ndjson trace that TLC validates.
//!   worlddrv script <ops.ndjson> <trace.ndjson>
//!   worlddrv random <seed> <histories> <ops-per-history> <trace.ndjson>
mod qfamily;
use brood_verif_harness::*;
use rand::{rngs::StdRng, Rng, SeedableRng};
use serde_json::{json, Value};
use std::fs::File;
use std::io::{BufRead, BufReader, BufWriter};

fn pick_order(rng: &mut StdRng) -> Vec<u8> {
    let o = shapes::ORDERS[rng.gen_range(0..shapes::N_ORDERS)];
    o.to_vec()
}
fn pick_comp(rng: &mut StdRng) -> usize {
    // the first five components (distinct layouts) most of the time, the last four (second
    // identifier byte) otherwise
    if rng.gen_bool(0.7) { rng.gen_range(0..5) } else { rng.gen_range(5..comps::NC) }
}
fn vals(rng: &mut StdRng) -> Vec<u32> {
    (0..comps::NC).map(|_| rng.gen_range(1..900)).collect()
}

fn gen_op(rng: &mut StdRng, d: &Driver, profile: &str) -> Value {
    let live: Vec<usize> = (1..=MAXW).filter(|w| d.ws[w - 1].is_some()).collect();
    let dead: Vec<usize> = (1..=MAXW).filter(|w| d.ws[w - 1].is_none()).collect();
    if live.is_empty() {
        return json!({"op": "new", "w": dead[0], "vals": [rng.gen_range(1..900), rng.gen_range(1..900), rng.gen_range(1..900)]});
    }
    let w = live[rng.gen_range(0..live.len())];
    let s = d.ws[w - 1].as_ref().unwrap();
    let n_issued = s.issued.len();
    let n_live = s.world.len();
    // target: mostly live entities, sometimes any issued (possibly dead), sometimes forged
    let target = |rng: &mut StdRng| -> Value {
        if n_issued == 0 || rng.gen_range(0..40) == 0 {
            return json!({"forge": [rng.gen_range(0..(n_issued + 2)), rng.gen_range(0..3)]});
        }
        if rng.gen_range(0..6) == 0 {
            return json!({"k": rng.gen_range(1..=n_issued)});
        }
        // pick a live one if possible
        for _ in 0..8 {
            let k = rng.gen_range(1..=n_issued);
            if s.world.contains(s.issued[k - 1]) {
                return json!({"k": k});
            }
        }
        json!({"k": rng.gen_range(1..=n_issued)})
    };
    let (max_live, max_issued) = if profile == "par" { (72, 110) } else { (10, 48) };
    let crowded = n_live >= max_live;
    let many_issued = n_issued >= max_issued;
    loop {
        let mut x = rng.gen_range(0..100);
        if profile == "queries" && rng.gen_bool(0.45) {
            x = 97;
        }
        if profile == "untrusted" && !dead.is_empty() && n_live > 0 && rng.gen_bool(0.45) {
            let enc = ["json", "tok_hr", "tok_bin"][rng.gen_range(0..3)];
            let mk = if enc == "json" { mutate::JSON_MUTS[rng.gen_range(0..mutate::JSON_MUTS.len())] } else { mutate::TOKEN_MUTS[rng.gen_range(0..mutate::TOKEN_MUTS.len())] };
            return json!({"op": "deser_mut", "w": w, "dst": dead[0], "enc": enc, "mkind": mk, "mpos": rng.gen_range(0..4000)});
        }
        if profile == "untrusted" && !dead.is_empty() && n_live > 0 && rng.gen_bool(0.55) {
            // structured mutations (vocabulary of spec/Serde.tla): 1..3 of them, small values so that
            // collisions with existing slots / identifiers are frequent
            let kinds = ["row_index", "row_gen", "row_del", "row_dup", "arch_len", "arch_bits", "arch_del", "arch_dup",
                         "alloc_len", "free_del", "free_dup", "free_push", "free_index", "free_gen"];
            let nm = [1, 1, 2, 2, 3][rng.gen_range(0..5)];
            let mut muts = Vec::new();
            for _ in 0..nm {
                let k = kinds[rng.gen_range(0..kinds.len())];
                let v = if k == "arch_bits" { [rng.gen_range(0..512), rng.gen_range(0..1024), 512, 513, 3][rng.gen_range(0..5)] } else { rng.gen_range(0..(n_issued + 2)) };
                muts.push(json!({"k": k, "a": rng.gen_range(1..5), "r": rng.gen_range(1..5), "v": v, "g": rng.gen_range(0..3)}));
            }
            if rng.gen_bool(0.35) {
                // the coordinated pair: a row takes another slot's index, the allocator section is adjusted
                muts = vec![json!({"k": "row_index", "a": rng.gen_range(1..4), "r": rng.gen_range(1..4), "v": rng.gen_range(0..(n_issued + 1)), "g": 0}),
                            if rng.gen_bool(0.5) { json!({"k": "alloc_len", "a": 0, "r": 0, "v": n_issued.saturating_sub(1), "g": 0}) }
                            else { json!({"k": "free_push", "a": 0, "r": 0, "v": rng.gen_range(0..(n_issued + 1)), "g": rng.gen_range(0..3)}) }];
            }
            return json!({"op": "deser_struct", "w": w, "dst": dead[0], "muts": muts});
        }
        if profile == "untrusted" && dead.is_empty() && rng.gen_bool(0.3) {
            return json!({"op": "drop", "w": live[rng.gen_range(0..live.len())]});
        }
        if profile == "par" {
            // grow a few large tables, then query them in parallel on different pools
            if !crowded && !many_issued && rng.gen_bool(0.35) {
                let orders: [&[u8]; 6] = [&[2, 3], &[2], &[4, 2, 3, 0, 1], &[3, 4], &[1, 8], &[2, 4]];
                let o = if rng.gen_bool(0.3) { pick_order(rng) } else { orders[rng.gen_range(0..6)].to_vec() };
                let n = rng.gen_range(3..14);
                let rows: Vec<Vec<u32>> = (0..n).map(|_| vals(rng)).collect();
                return json!({"op": "extend", "w": w, "order": o, "rows": rows, "extra": 0});
            }
            if rng.gen_bool(0.4) {
                let pq: Vec<usize> = (0..qfamily::N_QUERIES).filter(|q| qfamily::is_par(*q)).collect();
                let q = pq[rng.gen_range(0..pq.len())];
                let pool = [1, 2, 3, 4, 8, 16][rng.gen_range(0..6)];
                return json!({"op": "query", "w": w, "q": q, "v": rng.gen_range(1..50), "pool": pool});
            }
            if x >= 79 && x <= 89 { x = 28; }   // fewer copies, more removals
        }
        match x {
            0..=15 if !crowded && !many_issued => {
                return json!({"op": "insert", "w": w, "order": pick_order(rng), "vals": vals(rng)});
            }
            16..=17 if !crowded && !many_issued => {
                // the same through the entities! macro: (components; n) and a list of tuples
                let orders: [&[u8]; 5] = [&[], &[2], &[3, 2], &[4, 1, 0], &[8, 2]];
                let o = orders[rng.gen_range(0..5)];
                if rng.gen_bool(0.5) {
                    let n = rng.gen_range(0..5);
                    let v = vals(rng);
                    let rows: Vec<Vec<u32>> = (0..n).map(|_| v.clone()).collect();
                    return json!({"op": "extend", "w": w, "order": o, "rows": rows, "extra": 0, "form": "clone"});
                }
                let n = rng.gen_range(1..4);
                let rows: Vec<Vec<u32>> = (0..n).map(|_| vals(rng)).collect();
                return json!({"op": "extend", "w": w, "order": o, "rows": rows, "extra": 0, "form": "tuples"});
            }
            18..=27 if !crowded && !many_issued => {
                // batch sizes 0..6, biased towards the size of the free list -1, =, +1
                let free = n_issued.saturating_sub(n_live);
                let n = match rng.gen_range(0..6) {
                    0 => 0,
                    1 => free.saturating_sub(1).min(6),
                    2 => free.min(6),
                    3 => (free + 1).min(6),
                    _ => rng.gen_range(0..5),
                };
                let rows: Vec<Vec<u32>> = (0..n).map(|_| vals(rng)).collect();
                return json!({"op": "extend", "w": w, "order": pick_order(rng), "rows": rows, "extra": rng.gen_range(0..3)});
            }
            28 => {
                // ragged batch: 3 or 4 columns, one of them with a different length
                let n = rng.gen_range(3..5);
                let base = rng.gen_range(0..4);
                let mut lens: Vec<usize> = vec![base; n];
                let k = rng.gen_range(0..n);
                lens[k] = if base == 0 { rng.gen_range(1..4) } else if rng.gen_bool(0.5) { base - 1 } else { base + rng.gen_range(1..3) };
                return json!({"op": "extend_ragged", "w": w, "lens": lens});
            }
            29..=43 => return json!({"op": "remove", "w": w, "e": target(rng)}),
            44..=45 => return json!({"op": "clear", "w": w}),
            46..=55 => return json!({"op": "add", "w": w, "e": target(rng), "c": pick_comp(rng), "v": rng.gen_range(1..900)}),
            56..=63 => return json!({"op": "remc", "w": w, "e": target(rng), "c": pick_comp(rng)}),
            64..=65 => return json!({"op": "add2", "w": w, "e": target(rng), "c": pick_comp(rng), "c2": pick_comp(rng), "rm": [rng.gen_bool(0.5), rng.gen_bool(0.5)], "v": rng.gen_range(1..900)}),
            66..=71 => {
                let mode = ["all", "one", "entry", "entries"][rng.gen_range(0..4)];
                if mode == "all" {
                    return json!({"op": "qmut", "w": w, "mode": mode, "c": pick_comp(rng), "v": rng.gen_range(1..50)});
                }
                return json!({"op": "qmut", "w": w, "mode": mode, "c": pick_comp(rng), "v": rng.gen_range(1..50), "e": target(rng)});
            }
            72..=74 => return json!({"op": "reserve", "w": w, "order": pick_order(rng), "n": rng.gen_range(0..5)}),
            75..=78 => return json!({"op": "shrink", "w": w}),
            79..=81 if !dead.is_empty() => return json!({"op": "clone", "w": w, "dst": dead[0]}),
            82..=84 if live.len() >= 2 => {
                let mut src = live[rng.gen_range(0..live.len())];
                if src == w {
                    src = *live.iter().find(|x| **x != w).unwrap();
                }
                return json!({"op": "clone_from", "w": w, "src": src});
            }
            85..=89 if !dead.is_empty() => {
                let enc = ["json", "tok_hr", "tok_bin"][rng.gen_range(0..3)];
                return json!({"op": "serde", "w": w, "dst": dead[0], "enc": enc});
            }
            90..=91 => return json!({"op": "getmut", "w": w, "r": rng.gen_range(0..3), "v": rng.gen_range(1..900)}),
            92..=93 => return json!({"op": "viewres", "w": w, "variant": rng.gen_range(0..queries::N_VIEWRES), "v": rng.gen_range(1..50)}),
            94..=95 if live.len() >= 2 || many_issued => return json!({"op": "drop", "w": w}),
            96 if !dead.is_empty() => {
                return json!({"op": "new", "w": dead[0], "vals": [rng.gen_range(1..900), rng.gen_range(1..900), rng.gen_range(1..900)]});
            }
            97..=99 if qfamily::N_QUERIES > 0 => {
                let q = rng.gen_range(0..qfamily::N_QUERIES);
                if qfamily::needs_target(q) {
                    return json!({"op": "query", "w": w, "q": q, "v": rng.gen_range(1..50), "e": target(rng)});
                }
                if qfamily::is_par(q) {
                    // parallel queries always run inside an explicit pool (rayon's own bookkeeping for
                    // jobs injected from the main thread is not the library's memory)
                    let pool = [1, 2, 3, 4, 8][rng.gen_range(0..5)];
                    return json!({"op": "query", "w": w, "q": q, "v": rng.gen_range(1..50), "pool": pool});
                }
                return json!({"op": "query", "w": w, "q": q, "v": rng.gen_range(1..50), "st": rng.gen_range(0..4)});
            }
            _ => continue,
        }
    }
}

/// An operation that is meaningful on both worlds of a twin pair (targets are lineage ordinals).
fn twin_op(rng: &mut StdRng, d: &Driver, w: usize) -> Value {
    let s = d.ws[w - 1].as_ref().unwrap();
    let n_issued = s.issued.len().max(1);
    let e = json!({"k": rng.gen_range(1..=n_issued + 2)});
    match rng.gen_range(0..10) {
        0..=2 => json!({"op": "insert", "w": w, "order": pick_order(rng), "vals": vals(rng)}),
        3..=4 => {
            let n = rng.gen_range(0..4);
            let rows: Vec<Vec<u32>> = (0..n).map(|_| vals(rng)).collect();
            json!({"op": "extend", "w": w, "order": pick_order(rng), "rows": rows, "extra": 0})
        }
        5..=6 => json!({"op": "remove", "w": w, "e": e}),
        7 => json!({"op": "add", "w": w, "e": e, "c": pick_comp(rng), "v": rng.gen_range(1..900)}),
        8 => json!({"op": "remc", "w": w, "e": e, "c": pick_comp(rng)}),
        _ => json!({"op": "qmut", "w": w, "mode": "all", "c": pick_comp(rng), "v": rng.gen_range(1..50)}),
    }
}

/// After `b` was copied from `a`: operations that leave both worlds with the SAME tables, columns,
/// slots and free list, but with the rows of one table bound to the identifiers in a different
/// order: in `a` the entity of the first row of a table leaves and re-enters it (add + remove of a
/// component it lacks: it comes back as the last row, the former last row took its place), in `b`
/// the entity of the last row does the same (row order unchanged) and the two entities exchange
/// their values.  The worlds then differ (two entities carry each other's values) although every
/// column compares equal position by position: `==` has to notice through the identifier column.
fn permuted_pair(d: &mut Driver, a: usize, b: usize) -> Vec<Value> {
    let mut ops = Vec::new();
    let s = d.ws[a - 1].as_mut().unwrap();
    let dump = s.world.verif_dump();
    let (ents, _) = brood_verif_harness::content(&mut s.world);
    let ord = |s: &brood_verif_harness::Slot, p: (usize, u64)| -> Option<usize> {
        s.issued.iter().position(|i| brood::verif::id_parts(*i) == p).map(|k| k + 1)
    };
    for t in dump.tables.iter() {
        if t.len < 2 {
            continue;
        }
        let mut bits = 0u64;
        for (k, by) in t.bytes.iter().enumerate() {
            bits |= (*by as u64) << (8 * k);
        }
        // a component the table lacks (to leave and re-enter through), at least one valued component
        let lacks = (1..comps::NC).find(|c| (bits >> c) & 1 == 0);
        let valued: Vec<usize> = (1..comps::NC).filter(|c| (bits >> c) & 1 == 1).collect();
        let (first, last) = (t.ids[0], t.ids[t.len - 1]);
        let (Some(lack), Some(kf), Some(kl)) = (lacks, ord(s, first), ord(s, last)) else { continue };
        if valued.is_empty() {
            continue;
        }
        let key = |p: (usize, u64)| format!("{}.{}", p.0, p.1);
        let (Some(ef), Some(el)) = (ents.get(&key(first)), ents.get(&key(last))) else { continue };
        let mut differ = false;
        let mut swaps = Vec::new();
        for c in valued.iter() {
            let n = comps::COMP_NAMES[*c];
            let (vf, vl) = (ef[n]["v"].as_u64().unwrap_or(0), el[n]["v"].as_u64().unwrap_or(0));
            differ |= vf != vl;
            swaps.push(json!({"op": "add", "w": b, "e": {"k": kf}, "c": c, "v": vl}));
            swaps.push(json!({"op": "add", "w": b, "e": {"k": kl}, "c": c, "v": vf}));
        }
        if !differ {
            continue;
        }
        ops.push(json!({"op": "add", "w": a, "e": {"k": kf}, "c": lack, "v": 5}));
        ops.push(json!({"op": "remc", "w": a, "e": {"k": kf}, "c": lack}));
        ops.push(json!({"op": "add", "w": b, "e": {"k": kl}, "c": lack, "v": 5}));
        ops.push(json!({"op": "remc", "w": b, "e": {"k": kl}, "c": lack}));
        ops.extend(swaps);
        break;
    }
    // the look at the world above is not part of any recorded operation
    comps::drain_ledger();
    heap::drain();
    ops
}

fn main() {
    let args: Vec<String> = std::env::args().collect();
    std::panic::set_hook(Box::new(|_| {})); // panics are data; keep stderr quiet
    if std::env::var("VERIF_HEAP").map(|v| v == "1").unwrap_or(true) {
        heap::enable();
    }
    match args[1].as_str() {
        "script" => {
            let out = BufWriter::new(File::create(&args[3]).unwrap());
            let mut d = Driver::new(Box::new(out));
            d.qfamily = Some(QFamily { n: qfamily::N_QUERIES, run: qfamily::run, needs_target: qfamily::needs_target });
            d.wal = Some(format!("{}.cur", &args[3]));
            // `--light-last`: the last op of the script is observed structurally only
            let light_last = args.get(4).map(|a| a == "--light-last").unwrap_or(false);
            let nlines = BufReader::new(File::open(&args[2]).unwrap()).lines().filter(|l| !l.as_ref().unwrap().trim().is_empty()).count();
            let mut k = 0usize;
            let mut skip = false;
            for line in BufReader::new(File::open(&args[2]).unwrap()).lines() {
                let line = line.unwrap();
                if line.trim().is_empty() {
                    continue;
                }
                let op: Value = serde_json::from_str(&line).unwrap();
                let name = op["op"].as_str().unwrap();
                k += 1;
                if light_last && k == nlines {
                    d.light = true;
                }
                if name == "reset" {
                    skip = false;
                }
                if skip {
                    continue;
                }
                // when replaying a recorded trace, a recorded panic is re-executed as the op it was
                let mut op2 = op.clone();
                if name == "panicked" {
                    op2["op"] = op["was"].clone();
                }
                if !d.exec(&op2) {
                    skip = true;
                }
            }
            if light_last {
                // the state may be corrupt: do not run destructors
                for s in d.ws.iter_mut() {
                    if let Some(s) = s.take() {
                        std::mem::forget(s);
                    }
                }
                std::process::exit(0);
            }
            d.exec(&json!({"op": "reset"}));
        }
        "random" => {
            let seed: u64 = args[2].parse().unwrap();
            let histories: usize = args[3].parse().unwrap();
            let nops: usize = args[4].parse().unwrap();
            let profile: String = args.get(6).cloned().unwrap_or_else(|| "mixed".to_string());
            let out = BufWriter::new(File::create(&args[5]).unwrap());
            let mut d = Driver::new(Box::new(out));
            d.qfamily = Some(QFamily { n: qfamily::N_QUERIES, run: qfamily::run, needs_target: qfamily::needs_target });
            d.wal = Some(format!("{}.cur", &args[5]));
            for h in 0..histories {
                let mut rng = StdRng::seed_from_u64(seed.wrapping_mul(1_000_003).wrapping_add(h as u64));
                let mut pending: std::collections::VecDeque<Value> = std::collections::VecDeque::new();
                let mut n = 0;
                while n < nops {
                    n += 1;
                    let op = match pending.pop_front() {
                        Some(op) => op,
                        None => gen_op(&mut rng, &d, &profile),
                    };
                    if !d.exec(&op) {
                        break;
                    }
                    // lock-step twins: right after a copy, mirror a burst of operations on both worlds
                    let name = op["op"].as_str().unwrap();
                    let after_copy = (name == "clone" || name == "serde") && pending.is_empty();
                    let roll = if after_copy { rng.gen_range(0..100) } else { 100 };
                    if after_copy && roll >= 65 && roll < 85 {
                        // near-miss pair for equality: the same columns in both worlds, but bound to the
                        // entity identifiers in a different order (see permuted_pair)
                        let a = op["w"].as_u64().unwrap() as usize;
                        let b = op["dst"].as_u64().unwrap() as usize;
                        if d.ws[b - 1].is_some() {
                            for o in permuted_pair(&mut d, a, b) {
                                pending.push_back(o);
                            }
                        }
                    }
                    if after_copy && roll < 65 {
                        let a = op["w"].as_u64().unwrap() as usize;
                        let b = op["dst"].as_u64().unwrap() as usize;
                        if d.ws[b - 1].is_some() {
                            let burst = rng.gen_range(1..6);
                            for _ in 0..burst {
                                let mut t = twin_op(&mut rng, &d, a);
                                t["m"] = json!(1);
                                let mut u = t.clone();
                                u["w"] = json!(b);
                                u["m"] = json!(2);
                                pending.push_back(t);
                                pending.push_back(u);
                            }
                        }
                    }
                }
                d.exec(&json!({"op": "reset"}));
            }
        }
        "enum" => {
            // bounded-exhaustive histories: every sequence of `depth` operations over a small
            // alphabet (2 components, 2 worlds), each from a fresh world; `modulus`/`residue`
            // select a slice of the enumeration
            let depth: usize = args[2].parse().unwrap();
            let modulus: usize = args[3].parse().unwrap();
            let residue: usize = args[4].parse().unwrap();
            let out = BufWriter::new(File::create(&args[5]).unwrap());
            let mut d = Driver::new(Box::new(out));
            d.wal = Some(format!("{}.cur", &args[5]));
            let v = [7u32, 11, 13, 17, 19, 23, 29, 31, 37];
            let alphabet: Vec<Value> = vec![
                json!({"op": "insert", "w": 1, "order": [2], "vals": v}),
                json!({"op": "insert", "w": 1, "order": [3], "vals": v}),
                json!({"op": "insert", "w": 1, "order": [3, 2], "vals": v}),
                json!({"op": "insert", "w": 1, "order": [], "vals": v}),
                json!({"op": "extend", "w": 1, "order": [2], "rows": [], "extra": 0}),
                json!({"op": "extend", "w": 1, "order": [2], "rows": [v, v], "extra": 1}),
                json!({"op": "extend", "w": 1, "order": [2, 3], "rows": [v], "extra": 0}),
                json!({"op": "extend", "w": 1, "order": [], "rows": [v, v], "extra": 0, "form": "clone"}),
                json!({"op": "extend", "w": 1, "order": [3, 2], "rows": [v, v], "extra": 0, "form": "tuples"}),
                json!({"op": "remove", "w": 1, "e": {"k": 1}}),
                json!({"op": "remove", "w": 1, "e": {"k": 2}}),
                json!({"op": "remove", "w": 1, "e": {"k": 3}}),
                json!({"op": "add", "w": 1, "e": {"k": 1}, "c": 2, "v": 5}),
                json!({"op": "add", "w": 1, "e": {"k": 2}, "c": 3, "v": 5}),
                json!({"op": "add", "w": 1, "e": {"k": 1}, "c": 8, "v": 5}),
                json!({"op": "remc", "w": 1, "e": {"k": 1}, "c": 2}),
                json!({"op": "remc", "w": 1, "e": {"k": 2}, "c": 3}),
                json!({"op": "clear", "w": 1}),
                json!({"op": "shrink", "w": 1}),
                json!({"op": "reserve", "w": 1, "order": [3], "n": 2}),
                json!({"op": "clone", "w": 1, "dst": 2}),
                json!({"op": "serde", "w": 1, "dst": 2, "enc": "tok_bin"}),
                json!({"op": "clone_from", "w": 1, "src": 2}),
                json!({"op": "clone_from", "w": 2, "src": 1}),
                json!({"op": "insert", "w": 2, "order": [2, 3], "vals": v}),
                json!({"op": "remove", "w": 2, "e": {"k": 1}}),
            ];
            let a = alphabet.len();
            let total = a.pow(depth as u32);
            let mut idx = residue;
            while idx < total {
                let mut x = idx;
                let mut seq = Vec::new();
                for _ in 0..depth {
                    seq.push(alphabet[x % a].clone());
                    x /= a;
                }
                // skip sequences that use world 2 before it exists (or copy into a live world)
                let mut live2 = false;
                let mut ok = true;
                for op in seq.iter() {
                    let name = op["op"].as_str().unwrap();
                    let uses2 = op["w"] == 2 || op.get("src").map(|s| s == 2).unwrap_or(false);
                    let makes2 = op.get("dst").map(|s| s == 2).unwrap_or(false);
                    if uses2 && !live2 { ok = false; break; }
                    if makes2 && live2 { ok = false; break; }
                    if makes2 { live2 = true; }
                    let _ = name;
                }
                if ok {
                    d.exec(&json!({"op": "new", "w": 1, "vals": [1, 2, 3]}));
                    for op in seq.iter() {
                        if !d.exec(op) { break; }
                    }
                    d.exec(&json!({"op": "reset"}));
                }
                idx += modulus;
            }
        }
        _ => panic!("usage"),
    }
}
