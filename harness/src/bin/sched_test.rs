use brood_verif_harness::sched::*;
use brood_verif_harness::sched_case;
use std::io::Write;
fn main() {
    std::panic::set_hook(Box::new(|_| {}));
    let path = std::env::args().nth(1).unwrap();
    let mut out = std::io::BufWriter::new(std::fs::File::create(path).unwrap());
    let presets: Vec<usize> = vec![0, 1, 2, 4];
    let pools: Vec<usize> = vec![1, 2, 4];
    sched_case!(out, "t1", presets, pools, 500; S(Wm), S(Sr), S(Sm));
    sched_case!(out, "t2", presets, pools, 500; S(Sm), S(Wm));
    out.flush().unwrap();
}
