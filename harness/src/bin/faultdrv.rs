//! Fault enumeration driver (C17): for every operation that calls user code, and every position k
//! of the k-th call-back of a kind (Clone, Drop, PartialEq, Debug, Serialize, Deserialize, system
//! body), build a small multi-table world, inject one panic at that position, catch it, touch every
//! value that is still reachable, drop every world, and log the value ledger and the allocator
//! protocol of each phase.  The judgement (PanicSafe) is made by TLC on the trace
//! (spec/TracePanic.tla).
//!   faultdrv list                         -> one line per (op) with the call-back counts (dry run)
//!   faultdrv run <out.ndjson> <from> <to> -> scenarios number from..to of the enumeration
use brood::{
    entity,
    entity::Identifier,
    query::{filter, result, Result, Views},
    registry,
    system::{schedule, schedule::task, ParSystem, System},
    Query,
};
use brood_verif_harness::comps::*;
use brood_verif_harness::*;
use rayon::iter::ParallelIterator;
use serde::{Deserialize, Serialize};
use serde_json::{json, Value};
use std::io::Write;
use std::panic::{catch_unwind, AssertUnwindSafe};

struct Worlds {
    a: Option<Wd>,
    b: Option<Wd>,
    out: Option<Wd>,
    ids: Vec<Identifier>,
}

fn build_a() -> (Wd, Vec<Identifier>) {
    let mut w = new_world([1, 2, 3]);
    let mut ids = Vec::new();
    for k in 0..3u32 {
        ids.push(w.insert(brood::entity!(S::fresh(10 + k), W::fresh(20 + k), H::fresh(30 + k))));
    }
    for k in 0..2u32 {
        ids.push(w.insert(brood::entity!(Z::fresh(0), B::fresh(40 + k), S::fresh(50 + k))));
    }
    ids.push(w.insert(brood::entity!(H::fresh(60))));
    ids.push(w.insert(brood::entity!(B::fresh(70), W::fresh(71))));
    // a reused slot, so that generations are not all zero
    let x = w.insert(brood::entity!(S::fresh(80)));
    w.remove(x);
    ids.push(w.insert(brood::entity!(S::fresh(81), H::fresh(82))));
    (w, ids)
}

/// destination variants for clone_from: 0 = same tables with more rows, 1 = fewer rows and an
/// extra table the source lacks, 2 = empty world
fn build_b(variant: usize) -> Wd {
    let mut w = new_world([7, 8, 9]);
    match variant {
        0 => {
            for k in 0..5u32 {
                w.insert(brood::entity!(S::fresh(100 + k), W::fresh(110 + k), H::fresh(120 + k)));
            }
            for k in 0..3u32 {
                w.insert(brood::entity!(Z::fresh(0), B::fresh(130 + k), S::fresh(140 + k)));
            }
            w.insert(brood::entity!(H::fresh(150)));
        }
        1 => {
            w.insert(brood::entity!(S::fresh(200), W::fresh(201), H::fresh(202)));
            let x = w.insert(brood::entity!(S::fresh(203), W::fresh(204), H::fresh(205)));
            w.insert(brood::entity!(W::fresh(206), Z::fresh(0)));
            w.insert(brood::entity!(W::fresh(207), Z::fresh(0)));
            w.remove(x);
        }
        _ => {}
    }
    w
}

struct PanicSys(u32);
impl System for PanicSys {
    type Views<'a> = Views!(&'a mut S, Option<&'a mut H>);
    type Filter = filter::None;
    type ResourceViews<'a> = Views!(&'a mut RA);
    type EntryViews<'a> = Views!();
    fn run<'a, R, RS, I, E>(&mut self, q: Result<'a, R, RS, I, Self::ResourceViews<'a>, Self::EntryViews<'a>, E>)
    where
        R: registry::ContainsViews<'a, Self::EntryViews<'a>, E>,
        I: Iterator<Item = Self::Views<'a>>,
    {
        let result!(ra) = q.resources;
        ra.set(ra.obs().v + 1);
        for result!(s, h) in q.iter {
            callback(K_SYS);
            s.set(s.obs().v + self.0);
            if let Some(h) = h {
                h.set(h.obs().v + self.0);
            }
        }
    }
}
struct QuietSys;
impl System for QuietSys {
    type Views<'a> = Views!(&'a mut W);
    type Filter = filter::None;
    type ResourceViews<'a> = Views!();
    type EntryViews<'a> = Views!();
    fn run<'a, R, RS, I, E>(&mut self, q: Result<'a, R, RS, I, Self::ResourceViews<'a>, Self::EntryViews<'a>, E>)
    where
        R: registry::ContainsViews<'a, Self::EntryViews<'a>, E>,
        I: Iterator<Item = Self::Views<'a>>,
    {
        for result!(w) in q.iter {
            w.set(w.obs().v + 1);
        }
    }
}
struct PanicPar;
impl ParSystem for PanicPar {
    type Views<'a> = Views!(&'a mut S);
    type Filter = filter::None;
    type ResourceViews<'a> = Views!();
    type EntryViews<'a> = Views!();
    fn run<'a, R, RS, I, E>(&mut self, q: Result<'a, R, RS, I, Self::ResourceViews<'a>, Self::EntryViews<'a>, E>)
    where
        R: registry::ContainsViews<'a, Self::EntryViews<'a>, E>,
        I: ParallelIterator<Item = Self::Views<'a>>,
    {
        q.iter.for_each(|result!(s)| {
            callback(K_SYS);
            s.set(s.obs().v + 1);
        });
    }
}

const OPS: [&str; 31] = [
    "remove0", "remove_mid", "remove_last", "clear", "add_overwrite", "add_shape", "remc", "drop_world",
    "remc_full", "remc_last_full", "remc_to_new_table", "add_shape_full", "add_overwrite_full", "eq_value",
    "clone", "clone_from0", "clone_from1", "clone_from2", "clone_from1_full", "eq_same", "eq_diff", "debug",
    "ser_json", "ser_tok_bin", "de_json", "de_tok_hr", "de_tok_bin", "run_system", "run_schedule", "run_par_system", "par_query",
];

fn prepare(op: &str) -> Worlds {
    let (a, ids) = build_a();
    let b = match op {
        "clone_from0" | "eq_diff" => Some(build_b(0)),
        "clone_from1" => Some(build_b(1)),
        "clone_from1_full" => {
            // fewer rows than the source AND every column exactly full: cloning the missing rows
            // has to move the column buffers
            let mut b = build_b(1);
            b.shrink_to_fit();
            Some(b)
        }
        "clone_from2" => Some(build_b(2)),
        "eq_same" => Some(a.clone()),
        "eq_value" => {
            // same structure, one value differs in the last table
            let mut c = a.clone();
            for result!(h) in c.query(Query::<Views!(&mut H)>::new()).iter {
                h.set(4242);
            }
            Some(c)
        }
        _ => None,
    };
    let mut a = a;
    if op.ends_with("_full") {
        // every column exactly full: the next push has to reallocate
        a.shrink_to_fit();
    }
    Worlds { a: Some(a), b, out: None, ids }
}

thread_local! {
    static SERIALIZED: std::cell::RefCell<(String, Option<serde_assert::Tokens>, Option<serde_assert::Tokens>)> = std::cell::RefCell::new((String::new(), None, None));
}

/// Things that must exist before the fault is armed (serialized forms for the deserialization ops).
fn pre(op: &str, ws: &mut Worlds) {
    let a = ws.a.as_ref().unwrap();
    match op {
        "de_json" => {
            let t = serde_json::to_string(a).unwrap();
            SERIALIZED.with(|s| s.borrow_mut().0 = t);
        }
        "de_tok_hr" | "de_tok_bin" => {
            let hr = op == "de_tok_hr";
            let ser = serde_assert::Serializer::builder().is_human_readable(hr).build();
            let t = a.serialize(&ser).unwrap();
            SERIALIZED.with(|s| {
                if hr {
                    s.borrow_mut().1 = Some(t)
                } else {
                    s.borrow_mut().2 = Some(t)
                }
            });
        }
        _ => {}
    }
}

fn exec(op: &str, ws: &mut Worlds) {
    let ids = ws.ids.clone();
    match op {
        "remove0" => ws.a.as_mut().unwrap().remove(ids[0]),
        "remove_mid" => ws.a.as_mut().unwrap().remove(ids[1]),
        "remove_last" => ws.a.as_mut().unwrap().remove(ids[2]),
        "clear" => ws.a.as_mut().unwrap().clear(),
        "add_overwrite" => {
            let x = H::fresh(999);
            ws.a.as_mut().unwrap().entry(ids[1]).unwrap().add(x)
        }
        "add_shape" => {
            let x = B::fresh(9);
            ws.a.as_mut().unwrap().entry(ids[1]).unwrap().add(x)
        }
        "remc" | "remc_full" => ws.a.as_mut().unwrap().entry(ids[0]).unwrap().remove::<W, _>(),
        "remc_last_full" => ws.a.as_mut().unwrap().entry(ids[2]).unwrap().remove::<H, _>(),
        "remc_to_new_table" => ws.a.as_mut().unwrap().entry(ids[3]).unwrap().remove::<B, _>(),
        "add_shape_full" => {
            let x = W::fresh(9);
            ws.a.as_mut().unwrap().entry(ids[8]).unwrap().add(x)
        }
        "add_overwrite_full" => {
            let x = S::fresh(999);
            ws.a.as_mut().unwrap().entry(ids[1]).unwrap().add(x)
        }
        "drop_world" => drop(ws.a.take()),
        "clone" => ws.out = Some(ws.a.as_ref().unwrap().clone()),
        "clone_from0" | "clone_from1" | "clone_from2" | "clone_from1_full" => {
            let src = ws.a.as_ref().unwrap();
            Clone::clone_from(ws.b.as_mut().unwrap(), src)
        }
        "eq_same" | "eq_diff" | "eq_value" => {
            let _ = ws.a.as_ref().unwrap() == ws.b.as_ref().unwrap();
        }
        "debug" => {
            let _ = format!("{:?}", ws.a.as_ref().unwrap());
        }
        "ser_json" => {
            let _ = serde_json::to_string(ws.a.as_ref().unwrap());
        }
        "ser_tok_bin" => {
            let ser = serde_assert::Serializer::builder().is_human_readable(false).build();
            let _ = ws.a.as_ref().unwrap().serialize(&ser);
        }
        "de_json" => {
            let t = SERIALIZED.with(|s| s.borrow().0.clone());
            ws.out = serde_json::from_str::<Wd>(&t).ok();
        }
        "de_tok_hr" | "de_tok_bin" => {
            let hr = op == "de_tok_hr";
            let t = SERIALIZED.with(|s| if hr { s.borrow_mut().1.take() } else { s.borrow_mut().2.take() }).unwrap();
            let mut de = serde_assert::Deserializer::builder().tokens(t).is_human_readable(hr).build();
            ws.out = Wd::deserialize(&mut de).ok();
        }
        "run_system" => ws.a.as_mut().unwrap().run_system(&mut PanicSys(3)),
        "run_schedule" => {
            let mut s = schedule!(task::System(QuietSys), task::System(PanicSys(5)), task::ParSystem(PanicPar));
            ws.a.as_mut().unwrap().run_schedule(&mut s)
        }
        "run_par_system" => ws.a.as_mut().unwrap().run_par_system(&mut PanicPar),
        "par_query" => {
            ws.a.as_mut().unwrap().par_query(Query::<Views!(&mut H, Option<&S>)>::new()).iter.for_each(|result!(h, _s)| {
                callback(K_SYS);
                h.set(h.obs().v + 1);
            });
        }
        _ => panic!("harness: unknown op"),
    }
}

fn kinds_of(op: &str) -> Vec<u32> {
    match op {
        "remove0" | "remove_mid" | "remove_last" | "clear" | "add_overwrite" | "remc" | "drop_world" => vec![K_DROP],
        "remc_full" | "remc_last_full" | "remc_to_new_table" | "add_overwrite_full" => vec![K_DROP],
        "add_shape" | "add_shape_full" => vec![],
        "clone" => vec![K_CLONE],
        "clone_from0" | "clone_from1" | "clone_from2" | "clone_from1_full" => vec![K_CLONE, K_DROP],
        "eq_same" | "eq_diff" | "eq_value" => vec![K_EQ],
        "debug" => vec![K_DEBUG],
        "ser_json" | "ser_tok_bin" => vec![K_SER],
        "de_json" | "de_tok_hr" | "de_tok_bin" => vec![K_DE],
        "run_system" | "run_schedule" | "run_par_system" | "par_query" => vec![K_SYS],
        _ => vec![],
    }
}

fn led_json() -> Value {
    Value::Array(drain_ledger().iter().map(|l| json!({"k": l.k, "c": l.c, "t": l.t, "f": l.f})).collect())
}
fn heap_json() -> Value {
    Value::Array(
        heap::drain()
            .iter()
            .map(|h| json!({"k": h.k, "id": h.id, "s": h.size, "al": h.align, "ns": h.new_size, "nid": h.new_id, "st": h.state, "ks": h.ksize, "ka": h.kalign, "lib": h.in_lib}))
            .collect(),
    )
}

/// Read every value still reachable in a world (checks tags and checksums).
fn touch(w: &mut Wd) -> Value {
    let (ents, n) = content(w);
    let mut bad = 0;
    let mut toks = Vec::new();
    for (_id, c) in ents.iter() {
        for (name, v) in c.as_object().unwrap() {
            if v.get("bad").is_some() {
                bad += 1;
            }
            if name != "Z" && name != "B" {
                toks.push(json!([name, v["t"]]));
            }
        }
    }
    json!({"n": n, "bad": bad, "toks": toks, "res": res_json(w)})
}

/// Resolve every identifier issued at set-up through `World::entry` and read what it lands on.
fn probe_ids(w: &mut Wd, ids: &[Identifier]) -> Value {
    let mut out = Vec::new();
    for id in ids {
        let con = w.contains(*id);
        let mut toks = Vec::new();
        let mut bad = 0;
        if let Some(mut e) = w.entry(*id) {
            if let Some(result!(ps, pw, ph)) = e.query(Query::<Views!(Option<&S>, Option<&W>, Option<&H>)>::new()) {
                if let Some(x) = ps { let o = x.obs(); if !o.ok { bad += 1; } toks.push(json!(["S", o.t])); }
                if let Some(x) = pw { let o = x.obs(); if !o.ok { bad += 1; } toks.push(json!(["W", o.t])); }
                if let Some(x) = ph { let o = x.obs(); if !o.ok { bad += 1; } toks.push(json!(["H", o.t])); }
            }
        }
        out.push(json!({"con": con, "bad": bad, "toks": toks}));
    }
    Value::Array(out)
}

fn dry_count(op: &str) -> Vec<(u32, u64)> {
    let mut ws = prepare(op);
    pre(op, &mut ws);
    reset_callbacks();
    let _ = catch_unwind(AssertUnwindSafe(|| exec(op, &mut ws)));
    // the number of PartialEq call-backs before the first difference depends on the table iteration
    // order (addresses): use a fixed bound so that the enumeration is the same in every process
    let r = kinds_of(op).into_iter().map(|k| (k, if op == "eq_value" { 23 } else { callbacks(k) })).collect();
    drop(ws.a.take());
    drop(ws.b.take());
    drop(ws.out.take());
    drain_ledger();
    r
}

fn main() {
    let args: Vec<String> = std::env::args().collect();
    std::panic::set_hook(Box::new(|_| {}));
    // enumerate scenarios (deterministic): (op, kind, k)
    let mut scen: Vec<(&str, u32, u64, u64)> = Vec::new();
    // warm-up (lazy statics) then enable the allocation recorder
    for op in OPS.iter() {
        for (kind, n) in dry_count(op) {
            for k in 1..=n {
                scen.push((op, kind, k, n));
            }
        }
    }
    if args[1] == "list" {
        for op in OPS.iter() {
            println!("{} {:?}", op, dry_count(op).iter().map(|(k, n)| (kind_name(*k), *n)).collect::<Vec<_>>());
        }
        println!("total {}", scen.len());
        return;
    }
    let from: usize = args[3].parse().unwrap();
    let to: usize = args[4].parse::<usize>().unwrap().min(scen.len());
    let mut out = std::io::BufWriter::new(std::fs::File::create(&args[2]).unwrap());
    heap::enable();
    for i in from..to {
        let (op, kind, k, n) = scen[i];
        let mut ws = prepare(op);
        pre(op, &mut ws);
        let setup_led = led_json();
        heap::drain();
        writeln!(out, "{}", json!({"ev": "begin", "i": i, "op": op, "kind": kind_name(kind), "k": k, "of": n, "led": setup_led})).unwrap();
        out.flush().unwrap();
        // phase 1: the operation with one injected panic
        arm_fault(kind, k as i64);
        let r = heap::lib(|| catch_unwind(AssertUnwindSafe(|| exec(op, &mut ws))));
        let fired = FAULT_KIND.load(std::sync::atomic::Ordering::SeqCst) == 0;
        disarm_fault();
        writeln!(out, "{}", json!({"ev": "fault", "i": i, "panicked": r.is_err(), "fired": fired, "led": led_json(), "heap": heap_json()})).unwrap();
        out.flush().unwrap();
        // phase 2: touch everything that is still reachable
        let mut touched = Vec::new();
        let mut touch_panicked = false;
        for w in [&mut ws.a, &mut ws.b, &mut ws.out] {
            if let Some(w) = w.as_mut() {
                match catch_unwind(AssertUnwindSafe(|| touch(w))) {
                    Ok(v) => touched.push(v),
                    Err(_) => touch_panicked = true,
                }
            }
        }
        // ... and resolve every identifier of world a (the location index must have stayed consistent)
        let mut probes = json!([]);
        if let Some(w) = ws.a.as_mut() {
            let idl = ws.ids.clone();
            match catch_unwind(AssertUnwindSafe(|| probe_ids(w, &idl))) {
                Ok(v) => probes = v,
                Err(_) => touch_panicked = true,
            }
        }
        writeln!(out, "{}", json!({"ev": "touch", "i": i, "worlds": touched, "probes": probes, "panicked": touch_panicked, "led": led_json(), "heap": heap_json()})).unwrap();
        out.flush().unwrap();
        // phase 3: the worlds can still be dropped
        let mut drop_panicked = false;
        for w in [ws.a.take(), ws.b.take(), ws.out.take()] {
            if let Some(w) = w {
                if heap::lib(|| catch_unwind(AssertUnwindSafe(move || drop(w)))).is_err() {
                    drop_panicked = true;
                }
            }
        }
        writeln!(out, "{}", json!({"ev": "dropped", "i": i, "panicked": drop_panicked, "led": led_json(), "heap": heap_json()})).unwrap();
        out.flush().unwrap();
    }
}
