//! regndrv <seed> <random-cases> <out.ndjson>: self-contained round-trip cases over registries of
//! 1, 7, 8, 15, 16, 17 and 24 components (see harness/src/regn.rs).  A fixed family first (every
//! size x every encoding, masks on the byte boundaries), then seeded random cases.
use brood_verif_harness::regn;
use rand::{rngs::StdRng, Rng, SeedableRng};
use serde_json::{json, Value};
use std::io::Write;
use std::panic::{catch_unwind, AssertUnwindSafe};

fn fixed_cases() -> Vec<Value> {
    let mut v = Vec::new();
    for &n in regn::SIZES.iter() {
        let all: u64 = (1u64 << n) - 1;
        let last: u64 = 1u64 << (n - 1);
        let mut masks = vec![last, all, 0, 1, last | 1];
        if n > 8 {
            masks.push(0x180 & all);          // both sides of the first byte boundary
            masks.push(0xFF);                 // exactly the first byte
            masks.push(all & !0xFF);          // everything but the first byte
        }
        if n > 16 {
            masks.push(0x18000 & all);
            masks.push(0xFF00);
        }
        for enc in ["json", "tok_bin", "tok_hr"] {
            v.push(json!({"op": "regn", "n": n, "masks": masks, "remcs": [], "removes": [], "enc": enc}));
            v.push(json!({"op": "regn", "n": n, "masks": masks, "remcs": [[1, n - 1], [4, 0]], "removes": [0, 2], "enc": enc}));
            v.push(json!({"op": "regn", "n": n, "masks": [], "remcs": [], "removes": [], "enc": enc}));
        }
    }
    v
}

fn random_case(rng: &mut StdRng) -> Value {
    let n = regn::SIZES[rng.gen_range(0..regn::SIZES.len())];
    let ne = rng.gen_range(1..7);
    let p = [0.1, 0.3, 0.6][rng.gen_range(0..3)];
    let masks: Vec<u64> = (0..ne).map(|_| {
        let mut m = 0u64;
        for c in 0..n {
            if rng.gen_bool(p) { m |= 1 << c; }
        }
        if rng.gen_bool(0.4) { m |= 1 << (n - 1); }
        m
    }).collect();
    let remcs: Vec<Value> = (0..rng.gen_range(0..4)).map(|_| json!([rng.gen_range(0..ne), rng.gen_range(0..n)])).collect();
    let mut removes: Vec<usize> = Vec::new();
    for e in 0..ne {
        if rng.gen_bool(0.25) { removes.push(e); }
    }
    let enc = ["json", "tok_bin", "tok_hr"][rng.gen_range(0..3)];
    json!({"op": "regn", "n": n, "masks": masks, "remcs": remcs, "removes": removes, "enc": enc})
}

fn main() {
    let args: Vec<String> = std::env::args().collect();
    if args.len() < 4 {
        eprintln!("usage: regndrv <seed> <random-cases> <out.ndjson> | regndrv script <cases.ndjson> <out.ndjson>");
        std::process::exit(2);
    }
    let path = &args[3];
    let mut cases;
    if args[1] == "script" {
        // regndrv script <cases.ndjson> <out.ndjson>: replay recorded cases
        cases = Vec::new();
        for l in std::fs::read_to_string(&args[2]).unwrap().lines() {
            if !l.trim().is_empty() {
                cases.push(serde_json::from_str::<Value>(l).unwrap());
            }
        }
    } else {
        let seed: u64 = args[1].parse().unwrap();
        let count: usize = args[2].parse().unwrap();
        let mut rng = StdRng::seed_from_u64(seed);
        cases = fixed_cases();
        for _ in 0..count {
            cases.push(random_case(&mut rng));
        }
    }
    let mut out = std::io::BufWriter::new(std::fs::File::create(path).unwrap());
    std::panic::set_hook(Box::new(|_| {}));
    for c in cases {
        std::fs::write(format!("{path}.cur"), c.to_string()).unwrap();
        let r = catch_unwind(AssertUnwindSafe(|| regn::run(&c)));
        let mut ev = c.clone();
        match r {
            Ok(res) => {
                ev["panicked"] = json!(false);
                ev["res"] = res;
            }
            Err(p) => {
                let msg = p.downcast_ref::<String>().cloned().or_else(|| p.downcast_ref::<&str>().map(|s| s.to_string())).unwrap_or_default();
                if msg.starts_with("harness:") {
                    eprintln!("{msg}");
                    std::process::exit(2);
                }
                ev["panicked"] = json!(true);
                ev["msg"] = json!(msg);
            }
        }
        writeln!(out, "{}", ev).unwrap();
        out.flush().unwrap();
    }
    let _ = std::fs::remove_file(format!("{path}.cur"));
}
