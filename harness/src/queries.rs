//! Hand-written query helpers used by the world driver (the generated C03 family lives in
//! `qfamily.rs`).

use crate::comps::*;
use crate::{obs_json, Wd};
use brood::{
    entity,
    entity::Identifier,
    query::{filter, result, Views},
    Query,
};
use serde_json::{json, Value};

macro_rules! qmut_comp {
    ($world:expr, $C:ty, $v:expr, $mode:expr, $target:expr) => {{
        let mut n = 0u32;
        match $mode {
            "all" => {
                for result!(x) in $world.query(Query::<Views!(&mut $C)>::new()).iter {
                    let o = x.obs().v;
                    x.set(o + $v);
                    n += 1;
                }
            }
            "one" => {
                let t = $target.unwrap();
                for result!(id, x) in
                    $world.query(Query::<Views!(entity::Identifier, &mut $C)>::new()).iter
                {
                    if id == t {
                        let o = x.obs().v;
                        x.set(o + $v);
                        n += 1;
                    }
                }
            }
            "entry" => {
                let t = $target.unwrap();
                if let Some(mut e) = $world.entry(t) {
                    if let Some(result!(x)) = e.query(Query::<Views!(&mut $C)>::new()) {
                        let o = x.obs().v;
                        x.set(o + $v);
                        n += 1;
                    }
                }
            }
            "entries" => {
                // query-time Entries: iterate nothing, reach the target through entry views
                let t = $target.unwrap();
                let mut r = $world
                    .query(Query::<Views!(), filter::None, Views!(), Views!(&mut $C)>::new());
                if let Some(mut e) = r.entries.entry(t) {
                    if let Some(result!(x)) = e.query(Query::<Views!(&mut $C)>::new()) {
                        let o = x.obs().v;
                        x.set(o + $v);
                        n += 1;
                    }
                }
            }
            _ => panic!("harness: bad qmut mode"),
        }
        n
    }};
}

pub fn qmut(world: &mut Wd, c: u64, v: u32, mode: &str, target: Option<Identifier>) -> u32 {
    match c {
        0 => qmut_comp!(world, Z, v, mode, target),
        1 => qmut_comp!(world, B, v, mode, target),
        2 => qmut_comp!(world, S, v, mode, target),
        3 => qmut_comp!(world, W, v, mode, target),
        4 => qmut_comp!(world, H, v, mode, target),
        5 => qmut_comp!(world, T5, v, mode, target),
        6 => qmut_comp!(world, T6, v, mode, target),
        7 => qmut_comp!(world, T7, v, mode, target),
        8 => qmut_comp!(world, T8, v, mode, target),
        _ => panic!("harness: bad comp"),
    }
}

macro_rules! rd {
    ($out:expr, $x:expr, $name:expr) => {
        $out.push(json!({"r": $name, "m": false, "d": 0, "got": obs_json($x.obs())}));
    };
}
macro_rules! wr {
    ($out:expr, $x:expr, $name:expr, $v:expr) => {{
        let o = $x.obs().v;
        $x.set(o + $v);
        $out.push(json!({"r": $name, "m": true, "d": $v, "got": obs_json($x.obs())}));
    }};
}

pub const N_VIEWRES: usize = 14;

/// `view_resources` with every interesting subset / order / mutability of the three resources.
pub fn viewres(world: &mut Wd, variant: usize, v: u32) -> Value {
    let mut out: Vec<Value> = Vec::new();
    match variant % N_VIEWRES {
        0 => {
            let result!() = world.view_resources::<Views!(), _>();
        }
        1 => {
            let result!(a) = world.view_resources::<Views!(&RA), _>();
            rd!(out, a, "RA");
        }
        2 => {
            let result!(c) = world.view_resources::<Views!(&mut RC), _>();
            wr!(out, c, "RC", v);
        }
        3 => {
            let result!(b, a) = world.view_resources::<Views!(&RB, &mut RA), _>();
            wr!(out, a, "RA", v);
            rd!(out, b, "RB");
        }
        4 => {
            let result!(a, b) = world.view_resources::<Views!(&mut RA, &RB), _>();
            wr!(out, a, "RA", v);
            rd!(out, b, "RB");
        }
        5 => {
            let result!(c, a) = world.view_resources::<Views!(&mut RC, &mut RA), _>();
            wr!(out, c, "RC", v);
            wr!(out, a, "RA", v + 1);
        }
        6 => {
            let result!(c, b, a) = world.view_resources::<Views!(&RC, &mut RB, &RA), _>();
            rd!(out, c, "RC");
            wr!(out, b, "RB", v);
            rd!(out, a, "RA");
        }
        7 => {
            let result!(a, b, c) = world.view_resources::<Views!(&mut RA, &mut RB, &mut RC), _>();
            wr!(out, a, "RA", v);
            wr!(out, b, "RB", v + 1);
            wr!(out, c, "RC", v + 2);
        }
        8 => {
            let result!(b, a, c) = world.view_resources::<Views!(&mut RB, &mut RA, &RC), _>();
            wr!(out, b, "RB", v);
            rd!(out, c, "RC");
            wr!(out, a, "RA", v + 1);
        }
        9 => {
            let result!(a, c, b) = world.view_resources::<Views!(&RA, &RC, &RB), _>();
            rd!(out, c, "RC");
            rd!(out, a, "RA");
            rd!(out, b, "RB");
        }
        10 => {
            // resource views of a query, reshaped
            let r = world.query(Query::<Views!(), filter::None, Views!(&mut RC, &RA)>::new());
            let result!(c, a) = r.resources;
            wr!(out, c, "RC", v);
            rd!(out, a, "RA");
        }
        11 => {
            let r = world.query(Query::<Views!(&S), filter::None, Views!(&mut RB)>::new());
            let result!(b) = r.resources;
            wr!(out, b, "RB", v);
        }
        12 => {
            let r = world.query(Query::<Views!(&mut S), filter::None, Views!(&mut RC, &RB, &mut RA)>::new());
            let result!(c, b, a) = r.resources;
            rd!(out, b, "RB");
            wr!(out, c, "RC", v);
            wr!(out, a, "RA", v + 1);
        }
        _ => {
            let x = world.get::<RB, _>();
            rd!(out, x, "RB");
        }
    }
    json!({"res": {"views": out}})
}

