//! Schedule harness: an alphabet of order-sensitive systems over the registry (S, W, H) with
//! resources (RA, RB), world presets, and the `sched_case!` macro that runs one schedule under the
//! deterministic fork/join shim for every admissible execution order (and under real rayon pools),
//! logging fork / join / task events and the final state next to the state reached by running the
//! same tasks one by one in declared order.

use crate::comps::*;
use brood::{
    entity,
    entity::Identifier,
    query::{filter, result, Result, Views},
    registry, resources,
    system::{ParSystem, System},
    Query, Registry, Resources, World,
};
use rayon::iter::ParallelIterator;
use serde_json::{json, Value};
use std::sync::Mutex;

pub use brood::verif::rayon_shim as shim;

pub type SReg = Registry!(S, W, H);
pub type SRes = Resources!(RA, RB);
pub type SWd = World<SReg, SRes>;

pub const M: u32 = 1_000_003;

/// reads performed by each task: (task, what, value)
pub static TASKLOG: Mutex<Vec<(u32, &'static str, u32)>> = Mutex::new(Vec::new());

pub fn rd<T: Tk>(t: u32, x: &T) {
    TASKLOG.lock().unwrap_or_else(|e| e.into_inner()).push((t, T::NAME, x.obs().v));
}
pub fn wr<T: Tk>(t: u32, x: &mut T) {
    let v = x.obs().v;
    x.set(((v as u64 * 3 + t as u64) % M as u64) as u32);
}
pub fn begin(t: u32) {
    shim::note("task_begin", t);
}
pub fn end(t: u32) {
    shim::note("task_end", t);
}

/// Every system kind has a task number and the list of entity identifiers it may look up through
/// its entry views.
pub struct Ctx {
    pub t: u32,
    pub ids: Vec<Identifier>,
}

#[macro_export]
macro_rules! kind {
    ($name:ident) => {
        pub struct $name(pub $crate::sched::Ctx);
        impl $name {
            pub fn new(t: u32, ids: &[brood::entity::Identifier]) -> Self {
                $name($crate::sched::Ctx { t, ids: ids.to_vec() })
            }
        }
    };
}

#[macro_export]
macro_rules! system {
    ($name:ident, views = $views:ty, filter = $filter:ty, res = $res:ty, entry = $entry:ty,
     |$t:ident, $ids:ident, $q:ident| $body:block) => {
        $crate::kind!($name);
        impl System for $name {
            type Views<'a> = $views;
            type Filter = $filter;
            type ResourceViews<'a> = $res;
            type EntryViews<'a> = $entry;
            fn run<'a, R, RS, I, E>(
                &mut self,
                #[allow(unused_mut)] mut $q: Result<'a, R, RS, I, Self::ResourceViews<'a>, Self::EntryViews<'a>, E>,
            ) where
                R: registry::ContainsViews<'a, Self::EntryViews<'a>, E>,
                I: Iterator<Item = Self::Views<'a>>,
            {
                let $t = self.0.t;
                #[allow(unused_variables)]
                let $ids = &self.0.ids;
                $crate::sched::begin($t);
                $body
                $crate::sched::end($t);
            }
        }
    };
}

#[macro_export]
macro_rules! par_system {
    ($name:ident, views = $views:ty, filter = $filter:ty, res = $res:ty, entry = $entry:ty,
     |$t:ident, $ids:ident, $q:ident| $body:block) => {
        $crate::kind!($name);
        impl ParSystem for $name {
            type Views<'a> = $views;
            type Filter = $filter;
            type ResourceViews<'a> = $res;
            type EntryViews<'a> = $entry;
            fn run<'a, R, RS, I, E>(
                &mut self,
                #[allow(unused_mut)] mut $q: Result<'a, R, RS, I, Self::ResourceViews<'a>, Self::EntryViews<'a>, E>,
            ) where
                R: registry::ContainsViews<'a, Self::EntryViews<'a>, E>,
                I: ParallelIterator<Item = Self::Views<'a>>,
            {
                let $t = self.0.t;
                #[allow(unused_variables)]
                let $ids = &self.0.ids;
                $crate::sched::begin($t);
                $body
                $crate::sched::end($t);
            }
        }
    };
}

pub use crate::sched_kinds::*;

// ---- world presets ------------------------------------------------------------------------------
/// Each preset is a list of entity shapes (bit 0 = S, 1 = W, 2 = H); values are derived from the
/// position so that every cell is distinguishable.
pub const PRESETS: [&[u8]; 7] = [
    &[3],                      // one entity {S,W}
    &[5, 1, 2, 7],             // {S,H} {S} {W} {S,W,H}
    &[5, 5, 1, 1],             // filters Has<H> / Not<Has<H>> are dynamically disjoint
    &[],                       // empty world
    &[3, 3, 3, 6, 0],          // three rows in one table, {W,H}, {}
    &[2],                      // only {W}
    &[7, 3, 5, 6, 1, 2, 4],    // every non-empty shape
];

pub fn build_world(preset: usize) -> (SWd, Vec<Identifier>) {
    let mut world: SWd = World::with_resources(resources!(RA::fresh(11), RB::fresh(22)));
    let mut ids = Vec::new();
    for (k, shape) in PRESETS[preset].iter().enumerate() {
        let b = 100 * (k as u32 + 1);
        let id = match shape {
            0 => world.insert(brood::entity!()),
            1 => world.insert(brood::entity!(S::fresh(b + 1))),
            2 => world.insert(brood::entity!(W::fresh(b + 2))),
            3 => world.insert(brood::entity!(S::fresh(b + 1), W::fresh(b + 2))),
            4 => world.insert(brood::entity!(H::fresh(b + 4))),
            5 => world.insert(brood::entity!(S::fresh(b + 1), H::fresh(b + 4))),
            6 => world.insert(brood::entity!(W::fresh(b + 2), H::fresh(b + 4))),
            7 => world.insert(brood::entity!(S::fresh(b + 1), W::fresh(b + 2), H::fresh(b + 4))),
            _ => panic!("harness: bad shape"),
        };
        ids.push(id);
    }
    (world, ids)
}

/// Value-level snapshot of a schedule world: entities (by identifier), resources.
pub fn snapshot(world: &mut SWd) -> Value {
    let mut ents = serde_json::Map::new();
    for result!(id, s, w, h) in world
        .query(Query::<Views!(entity::Identifier, Option<&S>, Option<&W>, Option<&H>)>::new())
        .iter
    {
        let mut c = serde_json::Map::new();
        if let Some(x) = s {
            c.insert("S".into(), json!(x.obs().v));
        }
        if let Some(x) = w {
            c.insert("W".into(), json!(x.obs().v));
        }
        if let Some(x) = h {
            c.insert("H".into(), json!(x.obs().v));
        }
        ents.insert(crate::ids(id), Value::Object(c));
    }
    json!({"ents": Value::Object(ents), "res": {"RA": world.get::<RA, _>().obs().v, "RB": world.get::<RB, _>().obs().v}})
}

/// The per-task read logs, as sorted lists (order inside one task is not observable).
pub fn take_tasklog(ntasks: usize) -> Value {
    let log = std::mem::take(&mut *TASKLOG.lock().unwrap_or_else(|e| e.into_inner()));
    let mut per: Vec<Vec<(String, u32)>> = vec![Vec::new(); ntasks];
    for (t, what, v) in log {
        per[(t - 1) as usize].push((what.to_string(), v));
    }
    for p in per.iter_mut() {
        p.sort();
    }
    json!(per.iter().map(|p| p.iter().map(|(w, v)| json!([w, v])).collect::<Vec<_>>()).collect::<Vec<_>>())
}

pub fn shim_events_json(events: &[shim::Event]) -> Vec<Value> {
    // attribute fork / join events to the task that ran as the node's second closure
    let mut task_of = std::collections::HashMap::new();
    for e in events.iter() {
        if e.kind == "task_begin" {
            task_of.insert(e.node, e.tag);
        }
    }
    events
        .iter()
        .map(|e| {
            let t = if e.kind == "fork" || e.kind == "join" { task_of.get(&e.node).copied().unwrap_or(0) } else { e.tag };
            json!({"ev": e.kind, "n": e.node, "t": t})
        })
        .collect()
}

/// Advance a choice vector (stateless DFS over the chooser's decision points). `options[i]` is the
/// number of alternatives that were available at decision i of the run that used `choices`.
pub fn next_choices(choices: &[u32], options: &[u32]) -> Option<Vec<u32>> {
    let mut c: Vec<u32> = (0..options.len()).map(|i| choices.get(i).copied().unwrap_or(0)).collect();
    let mut i = c.len();
    while i > 0 {
        i -= 1;
        if c[i] + 1 < options[i] {
            c[i] += 1;
            c.truncate(i + 1);
            return Some(c);
        }
    }
    None
}

/// Run one schedule (given as `S(Kind)` / `P(Kind)` items) on every preset, in deterministic mode
/// for every admissible order and in pass-through mode on the given pools; write events to `$out`.
#[macro_export]
macro_rules! sched_case {
    (@task S($k:ident), $t:expr, $ids:expr) => { brood::system::schedule::task::System($k::new($t, $ids)) };
    (@task P($k:ident), $t:expr, $ids:expr) => { brood::system::schedule::task::ParSystem($k::new($t, $ids)) };
    (@seq S($k:ident), $t:expr, $ids:expr, $w:expr) => { $w.run_system(&mut $k::new($t, $ids)) };
    (@seq P($k:ident), $t:expr, $ids:expr, $w:expr) => { $w.run_par_system(&mut $k::new($t, $ids)) };
    (@name S($k:ident)) => { stringify!($k) };
    (@name P($k:ident)) => { stringify!($k) };
    ($out:expr, $case:expr, $presets:expr, $pools:expr, $maxorders:expr; $($kind:ident($k:ident)),+) => {{
        use $crate::sched::*;
        use serde_json::json;
        use std::io::Write;
        let names: Vec<&str> = vec![$($crate::sched_case!(@name $kind($k))),+];
        let ntasks = names.len();
        let descs: Vec<serde_json::Value> = names.iter().map(|n| descriptor(n)).collect();
        for &preset in $presets.iter() {
            // sequential reference: tasks one by one in declared order
            let (mut seq_world, ids) = build_world(preset);
            {
                let mut t = 0u32;
                $( t += 1; $crate::sched_case!(@seq $kind($k), t, &ids, seq_world); )+
                let _ = t;
            }
            let seq_state = snapshot(&mut seq_world);
            let seq_log = take_tasklog(ntasks);
            shim::finish();
            let archs: Vec<u8> = { let mut a: Vec<u8> = PRESETS[preset].to_vec(); a.sort(); a.dedup(); a };
            let mut run_one = |mode: &str, pool: usize, choices: Vec<u32>| -> Vec<u32> {
                let (mut world, ids) = build_world(preset);
                let mut t = 0u32;
                let mut schedule = brood::system::schedule!($({ t += 1; $crate::sched_case!(@task $kind($k), t, &ids) }),+);
                let _ = t;
                shim::begin(choices.clone());
                if mode == "det" {
                    shim::set_mode(shim::Mode::Deterministic);
                    world.run_schedule(&mut schedule);
                } else {
                    shim::set_mode(shim::Mode::PassThrough);
                    let p = rayon::ThreadPoolBuilder::new().num_threads(pool).build().unwrap();
                    p.install(|| world.run_schedule(&mut schedule));
                }
                shim::set_mode(shim::Mode::Off);
                let (events, options) = shim::finish();
                let state = snapshot(&mut world);
                let log = take_tasklog(ntasks);
                writeln!($out, "{}", json!({"ev": "sched", "case": $case, "tasks": descs, "names": names, "preset": preset,
                    "archs": archs, "mode": mode, "pool": pool, "choices": choices})).unwrap();
                for e in shim_events_json(&events) { writeln!($out, "{}", e).unwrap(); }
                writeln!($out, "{}", json!({"ev": "end", "final": state, "seq": seq_state, "log": log, "seqlog": seq_log})).unwrap();
                options
            };
            // VERIF_SCHED_FIRST: the real pools first (1 thread first), in a process that has not run
            // a schedule yet: nothing the library remembers from one run may change a later one
            let rayon_first = std::env::var("VERIF_SCHED_FIRST").is_ok();
            if rayon_first {
                for &pool in $pools.iter() {
                    run_one("rayon", pool, Vec::new());
                }
            }
            // every admissible order
            let mut choices: Vec<u32> = Vec::new();
            let mut n = 0usize;
            loop {
                let options = run_one("det", 0, choices.clone());
                n += 1;
                match next_choices(&choices, &options) {
                    Some(c) if n < $maxorders => choices = c,
                    _ => break,
                }
            }
            if !rayon_first {
                for &pool in $pools.iter() {
                    run_one("rayon", pool, Vec::new());
                }
            }
        }
    }};
}
