//! Harness components and resources: every value is individually identified (token), every
//! construction / clone / deserialization / drop is recorded in a global ledger, every user
//! call-back (Clone, Drop, PartialEq, Debug, Serialize, Deserialize) can be made to panic at its
//! k-th invocation, and every value is self-checking (tag + checksum) so that a read through a
//! stale or mistyped pointer is observed as data.

use serde::{Deserialize, Deserializer, Serialize, Serializer};
use std::fmt;
use std::sync::atomic::{AtomicI64, AtomicU32, AtomicU64, Ordering};
use std::sync::Mutex;

#[derive(Clone, Debug)]
pub struct Led {
    pub k: &'static str, // new | clone | deser | drop | bad
    pub c: &'static str,
    pub t: u32,
    pub f: u32,
}

pub static LEDGER: Mutex<Vec<Led>> = Mutex::new(Vec::new());
static NEXT_TOK: AtomicU32 = AtomicU32::new(1);

pub fn next_tok() -> u32 {
    NEXT_TOK.fetch_add(1, Ordering::SeqCst)
}
pub fn led(k: &'static str, c: &'static str, t: u32, f: u32) {
    crate::heap::harness(|| LEDGER.lock().unwrap_or_else(|e| e.into_inner()).push(Led { k, c, t, f }));
}
pub fn drain_ledger() -> Vec<Led> {
    std::mem::take(&mut *LEDGER.lock().unwrap_or_else(|e| e.into_inner()))
}

// ---------------------------------------------------------------------------------------------
// fault injection: FAULT_KIND selects the call-back kind, FAULT_AT counts down to the injection.
pub const K_CLONE: u32 = 1;
pub const K_DROP: u32 = 2;
pub const K_EQ: u32 = 3;
pub const K_DEBUG: u32 = 4;
pub const K_SER: u32 = 5;
pub const K_DE: u32 = 6;
pub const K_SYS: u32 = 7;
pub static FAULT_KIND: AtomicU32 = AtomicU32::new(0);
pub static FAULT_AT: AtomicI64 = AtomicI64::new(0);
pub static CALLBACKS: [AtomicU64; 8] = [
    AtomicU64::new(0),
    AtomicU64::new(0),
    AtomicU64::new(0),
    AtomicU64::new(0),
    AtomicU64::new(0),
    AtomicU64::new(0),
    AtomicU64::new(0),
    AtomicU64::new(0),
];

pub fn kind_name(k: u32) -> &'static str {
    match k {
        K_CLONE => "clone",
        K_DROP => "drop",
        K_EQ => "eq",
        K_DEBUG => "debug",
        K_SER => "ser",
        K_DE => "de",
        K_SYS => "sys",
        _ => "none",
    }
}

#[inline]
pub fn callback(kind: u32) {
    CALLBACKS[kind as usize].fetch_add(1, Ordering::SeqCst);
    if FAULT_KIND.load(Ordering::SeqCst) == kind {
        if FAULT_AT.fetch_sub(1, Ordering::SeqCst) == 1 {
            FAULT_KIND.store(0, Ordering::SeqCst);
            panic!("injected fault in {} call-back", kind_name(kind));
        }
    }
}
pub fn arm_fault(kind: u32, at: i64) {
    FAULT_AT.store(at, Ordering::SeqCst);
    FAULT_KIND.store(kind, Ordering::SeqCst);
}
pub fn disarm_fault() {
    FAULT_KIND.store(0, Ordering::SeqCst);
}
pub fn reset_callbacks() {
    for c in CALLBACKS.iter() {
        c.store(0, Ordering::SeqCst);
    }
}
pub fn callbacks(kind: u32) -> u64 {
    CALLBACKS[kind as usize].load(Ordering::SeqCst)
}

// ---------------------------------------------------------------------------------------------
/// What an observation of one component value looks like.
#[derive(Clone, Copy, Debug, PartialEq, Eq)]
pub struct Obs {
    pub v: u32,
    pub t: u32,
    pub ok: bool,
    pub addr: usize,
}

pub trait Tk: Sized {
    const NAME: &'static str;
    fn fresh(v: u32) -> Self;
    fn obs(&self) -> Obs;
    fn set(&mut self, v: u32);
}

// zero-sized component -------------------------------------------------------------------------
pub struct Z;
impl Tk for Z {
    const NAME: &'static str = "Z";
    fn fresh(_v: u32) -> Self {
        led("new", "Z", 0, 0);
        Z
    }
    fn obs(&self) -> Obs {
        Obs { v: 0, t: 0, ok: true, addr: self as *const _ as usize }
    }
    fn set(&mut self, _v: u32) {}
}
impl Clone for Z {
    fn clone(&self) -> Self {
        callback(K_CLONE);
        led("clone", "Z", 0, 0);
        Z
    }
}
impl Drop for Z {
    fn drop(&mut self) {
        led("drop", "Z", 0, 0);
        callback(K_DROP);
    }
}
impl PartialEq for Z {
    fn eq(&self, _o: &Self) -> bool {
        callback(K_EQ);
        true
    }
}
impl fmt::Debug for Z {
    fn fmt(&self, f: &mut fmt::Formatter<'_>) -> fmt::Result {
        callback(K_DEBUG);
        f.write_str("Z")
    }
}
impl Serialize for Z {
    fn serialize<S: Serializer>(&self, s: S) -> Result<S::Ok, S::Error> {
        callback(K_SER);
        s.serialize_unit()
    }
}
impl<'de> Deserialize<'de> for Z {
    fn deserialize<D: Deserializer<'de>>(d: D) -> Result<Self, D::Error> {
        callback(K_DE);
        <()>::deserialize(d)?;
        led("deser", "Z", 0, 0);
        Ok(Z)
    }
}

// one-byte component (value-carrying, ledgered by count) ------------------------------------------
pub struct B(pub u8);
impl Tk for B {
    const NAME: &'static str = "B";
    fn fresh(v: u32) -> Self {
        led("new", "B", 0, 0);
        B((v % 251) as u8)
    }
    fn obs(&self) -> Obs {
        Obs { v: self.0 as u32, t: 0, ok: self.0 < 251, addr: self as *const _ as usize }
    }
    fn set(&mut self, v: u32) {
        self.0 = (v % 251) as u8;
    }
}
impl Clone for B {
    fn clone(&self) -> Self {
        callback(K_CLONE);
        led("clone", "B", 0, 0);
        B(self.0)
    }
}
impl Drop for B {
    fn drop(&mut self) {
        if self.0 >= 251 {
            led("bad", "B", self.0 as u32, 0);
        }
        led("drop", "B", 0, 0);
        self.0 = 0xFD; // tombstone: a later read of this byte is flagged
        callback(K_DROP);
    }
}
impl PartialEq for B {
    fn eq(&self, o: &Self) -> bool {
        callback(K_EQ);
        self.0 == o.0
    }
}
impl fmt::Debug for B {
    fn fmt(&self, f: &mut fmt::Formatter<'_>) -> fmt::Result {
        callback(K_DEBUG);
        write!(f, "B({})", self.0)
    }
}
impl Serialize for B {
    fn serialize<S: Serializer>(&self, s: S) -> Result<S::Ok, S::Error> {
        callback(K_SER);
        s.serialize_u8(self.0)
    }
}
impl<'de> Deserialize<'de> for B {
    fn deserialize<D: Deserializer<'de>>(d: D) -> Result<Self, D::Error> {
        callback(K_DE);
        let v = u8::deserialize(d)?;
        led("deser", "B", 0, 0);
        Ok(B(v % 251))
    }
}

// token-carrying values -------------------------------------------------------------------------
const TOMB: u32 = 0xDEAD_0000;

macro_rules! token_type {
    ($name:ident, $tag:expr, $sname:expr $(, #[$attr:meta])?) => {
        $(#[$attr])?
        pub struct $name {
            pub tok: u32,
            pub val: u32,
            pub chk: u32,
        }
        impl $name {
            fn mk(k: &'static str, v: u32, f: u32) -> Self {
                let tok = next_tok();
                led(k, $sname, tok, f);
                $name { tok, val: v, chk: tok ^ $tag }
            }
        }
        impl Tk for $name {
            const NAME: &'static str = $sname;
            fn fresh(v: u32) -> Self {
                Self::mk("new", v, 0)
            }
            fn obs(&self) -> Obs {
                Obs {
                    v: self.val,
                    t: self.tok,
                    ok: self.chk == self.tok ^ $tag,
                    addr: self as *const _ as usize,
                }
            }
            fn set(&mut self, v: u32) {
                self.val = v;
            }
        }
        impl Clone for $name {
            fn clone(&self) -> Self {
                callback(K_CLONE);
                Self::mk("clone", self.val, self.tok)
            }
        }
        impl Drop for $name {
            fn drop(&mut self) {
                if self.chk != self.tok ^ $tag {
                    led("bad", $sname, self.tok, self.chk);
                }
                led("drop", $sname, self.tok, 0);
                self.chk = TOMB;
                callback(K_DROP);
            }
        }
        impl PartialEq for $name {
            fn eq(&self, o: &Self) -> bool {
                callback(K_EQ);
                self.val == o.val
            }
        }
        impl fmt::Debug for $name {
            fn fmt(&self, f: &mut fmt::Formatter<'_>) -> fmt::Result {
                callback(K_DEBUG);
                write!(f, "{}({})", $sname, self.val)
            }
        }
        impl Serialize for $name {
            fn serialize<S: Serializer>(&self, s: S) -> Result<S::Ok, S::Error> {
                callback(K_SER);
                s.serialize_u32(self.val)
            }
        }
        impl<'de> Deserialize<'de> for $name {
            fn deserialize<D: Deserializer<'de>>(d: D) -> Result<Self, D::Error> {
                callback(K_DE);
                let v = u32::deserialize(d)?;
                Ok(Self::mk("deser", v, 0))
            }
        }
    };
}

token_type!(S, 0x5353_0001, "S");
token_type!(W, 0x5757_0002, "W", #[repr(align(64))]);
token_type!(T5, 0x5435_0007, "T5");
token_type!(T6, 0x5436_0008, "T6", #[repr(align(16))]);
token_type!(T7, 0x5437_0009, "T7");
token_type!(T8, 0x5438_000A, "T8");
token_type!(RA, 0x5241_0004, "RA");
token_type!(RB, 0x5242_0005, "RB");
token_type!(RC, 0x5243_0006, "RC", #[repr(align(32))]);

// heap-owning component ---------------------------------------------------------------------------
pub struct H {
    pub tok: u32,
    pub val: u32,
    pub data: Vec<u32>,
}
impl H {
    fn mk(k: &'static str, v: u32, f: u32) -> Self {
        let tok = next_tok();
        led(k, "H", tok, f);
        H { tok, val: v, data: vec![tok ^ 0x4848_0003; 1 + (tok % 3) as usize] }
    }
    fn good(&self) -> bool {
        self.data.len() == 1 + (self.tok % 3) as usize
            && self.data.iter().all(|x| *x == self.tok ^ 0x4848_0003)
    }
}
impl Tk for H {
    const NAME: &'static str = "H";
    fn fresh(v: u32) -> Self {
        Self::mk("new", v, 0)
    }
    fn obs(&self) -> Obs {
        Obs { v: self.val, t: self.tok, ok: self.good(), addr: self as *const _ as usize }
    }
    fn set(&mut self, v: u32) {
        self.val = v;
    }
}
impl Clone for H {
    fn clone(&self) -> Self {
        callback(K_CLONE);
        Self::mk("clone", self.val, self.tok)
    }
}
impl Drop for H {
    fn drop(&mut self) {
        if !self.good() {
            led("bad", "H", self.tok, 0);
        }
        led("drop", "H", self.tok, 0);
        callback(K_DROP);
    }
}
impl PartialEq for H {
    fn eq(&self, o: &Self) -> bool {
        callback(K_EQ);
        self.val == o.val
    }
}
impl fmt::Debug for H {
    fn fmt(&self, f: &mut fmt::Formatter<'_>) -> fmt::Result {
        callback(K_DEBUG);
        write!(f, "H({})", self.val)
    }
}
impl Serialize for H {
    fn serialize<S: Serializer>(&self, s: S) -> Result<S::Ok, S::Error> {
        callback(K_SER);
        s.serialize_u32(self.val)
    }
}
impl<'de> Deserialize<'de> for H {
    fn deserialize<D: Deserializer<'de>>(d: D) -> Result<Self, D::Error> {
        callback(K_DE);
        let v = u32::deserialize(d)?;
        Ok(Self::mk("deser", v, 0))
    }
}

pub const NC: usize = 9;
pub const COMP_NAMES: [&str; 9] = ["Z", "B", "S", "W", "H", "T5", "T6", "T7", "T8"];
pub const RES_NAMES: [&str; 3] = ["RA", "RB", "RC"];
