//! Input mutation for C11: deterministic structured mutations of serde_assert token streams and of
//! serde_json values.  (kind, pos, arg) fully determine the mutation, so an event can be replayed.
use serde_assert::Token;
use serde_json::Value;

pub const TOKEN_MUTS: [&str; 14] = ["num+1", "num-1", "num0", "numbig", "del", "dup", "swap", "field", "len+1", "len-1", "delelem", "dupelem", "alias", "alias-shrink"];
pub const JSON_MUTS: [&str; 8] = ["num+1", "num-1", "num0", "numbig", "delelem", "dupelem", "swapelem", "key"];

fn is_num(t: &Token) -> bool {
    matches!(t, Token::U8(_) | Token::U16(_) | Token::U32(_) | Token::U64(_))
}
fn alter_num(t: &Token, how: &str) -> Token {
    let f = |x: u64, max: u64| -> u64 {
        match how {
            "num+1" => (x + 1).min(max),
            "num-1" => x.saturating_sub(1),
            "num0" => 0,
            _ => max.min(1_000_003),
        }
    };
    match t {
        Token::U8(x) => Token::U8(f(*x as u64, 255) as u8),
        Token::U16(x) => Token::U16(f(*x as u64, 65535) as u16),
        Token::U32(x) => Token::U32(f(*x as u64, u32::MAX as u64) as u32),
        Token::U64(x) => Token::U64(f(*x, u64::MAX)),
        other => other.clone(),
    }
}
fn opens(t: &Token) -> bool {
    matches!(t, Token::Seq { .. } | Token::Tuple { .. } | Token::Struct { .. } | Token::TupleStruct { .. } | Token::Map { .. })
}
fn closes(t: &Token) -> bool {
    matches!(t, Token::SeqEnd | Token::TupleEnd | Token::StructEnd | Token::TupleStructEnd | Token::MapEnd)
}
/// end (exclusive) of the value that starts at token i
fn value_end(ts: &[Token], i: usize) -> usize {
    let mut j = i;
    // prefix tokens that wrap the next value
    while j < ts.len() && matches!(ts[j], Token::NewtypeStruct { .. } | Token::Some | Token::Field(_)) {
        j += 1;
    }
    if j >= ts.len() {
        return ts.len();
    }
    if !opens(&ts[j]) {
        return j + 1;
    }
    let mut depth = 0usize;
    while j < ts.len() {
        if opens(&ts[j]) {
            depth += 1;
        } else if closes(&ts[j]) {
            depth -= 1;
            if depth == 0 {
                return j + 1;
            }
        }
        j += 1;
    }
    ts.len()
}

/// Returns the mutated stream and a short description of what was changed.
pub fn mutate_tokens(ts: &[Token], kind: &str, pos: usize) -> (Vec<Token>, String) {
    let mut out: Vec<Token> = ts.to_vec();
    if ts.is_empty() {
        return (out, "empty".into());
    }
    match kind {
        "num+1" | "num-1" | "num0" | "numbig" => {
            let idx: Vec<usize> = (0..ts.len()).filter(|i| is_num(&ts[*i])).collect();
            if idx.is_empty() {
                return (out, "no-number".into());
            }
            let i = idx[pos % idx.len()];
            out[i] = alter_num(&ts[i], kind);
            (out, format!("{kind}@{i}:{:?}->{:?}", ts[i], alter_num(&ts[i], kind)))
        }
        "del" => {
            let i = pos % ts.len();
            out.remove(i);
            (out, format!("del@{i}:{:?}", ts[i]))
        }
        "dup" => {
            let i = pos % ts.len();
            out.insert(i, ts[i].clone());
            (out, format!("dup@{i}:{:?}", ts[i]))
        }
        "swap" => {
            let i = pos % (ts.len().max(2) - 1);
            out.swap(i, i + 1);
            (out, format!("swap@{i}"))
        }
        "field" => {
            let idx: Vec<usize> = (0..ts.len()).filter(|i| matches!(ts[*i], Token::Field(_))).collect();
            if idx.is_empty() {
                return (out, "no-field".into());
            }
            let i = idx[pos % idx.len()];
            let new = match &ts[i] {
                Token::Field("index") => "generation",
                Token::Field("generation") => "index",
                Token::Field("length") => "free",
                Token::Field("free") => "length",
                _ => "bogus",
            };
            out[i] = Token::Field(if pos % 3 == 2 { "bogus" } else { new });
            (out, format!("field@{i}:{:?}", ts[i]))
        }
        "len+1" | "len-1" => {
            let idx: Vec<usize> = (0..ts.len()).filter(|i| matches!(ts[*i], Token::Seq { len: Some(_) } | Token::Tuple { .. })).collect();
            if idx.is_empty() {
                return (out, "no-len".into());
            }
            let i = idx[pos % idx.len()];
            let adj = |n: usize| if kind == "len+1" { n + 1 } else { n.saturating_sub(1) };
            out[i] = match &ts[i] {
                Token::Seq { len: Some(n) } => Token::Seq { len: Some(adj(*n)) },
                Token::Tuple { len } => Token::Tuple { len: adj(*len) },
                o => o.clone(),
            };
            (out, format!("{kind}@{i}:{:?}", ts[i]))
        }
        "delelem" | "dupelem" => {
            // an element = a complete value that is not the whole stream
            let i = 1 + pos % (ts.len() - 1);
            if closes(&ts[i]) {
                return (out, "no-elem".into());
            }
            let e = value_end(ts, i);
            if kind == "delelem" {
                out.drain(i..e);
            } else {
                let copy: Vec<Token> = ts[i..e].to_vec();
                for (k, t) in copy.into_iter().enumerate() {
                    out.insert(e + k, t);
                }
            }
            (out, format!("{kind}@{i}..{e}"))
        }
        "alias" | "alias-shrink" => {
            // two coordinated changes that keep the allocator section consistent: row b takes the
            // identifier of row a; b's old slot is accounted for by the free list ("alias") or, when
            // it was the last slot, by lowering the declared length ("alias-shrink")
            let alloc = match (0..ts.len()).find(|i| matches!(&ts[*i], Token::Struct { name: "Allocator", .. })) {
                Some(i) => i,
                None => return (out, "no-allocator".into()),
            };
            // identifier structs stored in rows: Struct{Identifier} Field(index) U64 Field(generation) U64 StructEnd
            let ids: Vec<usize> = (0..alloc).filter(|i| matches!(&ts[*i], Token::Struct { name: "Identifier", .. })).collect();
            if ids.len() < 2 {
                return (out, "too-few-rows".into());
            }
            let a = ids[pos % ids.len()];
            let b = ids[(pos / 7 + 1 + pos % ids.len()) % ids.len()];
            if a == b {
                return (out, "same-row".into());
            }
            let get = |i: usize| -> (u64, u64) {
                let x = if let Token::U64(x) = &ts[i + 2] { *x } else { 0 };
                let g = if let Token::U64(g) = &ts[i + 4] { *g } else { 0 };
                (x, g)
            };
            let (ai, ag) = get(a);
            let (bi, bg) = get(b);
            out[b + 2] = Token::U64(ai);
            out[b + 4] = Token::U64(ag);
            // allocator: Field(length) U64(n) Field(free) Seq{len} ... SeqEnd
            let len_pos = (alloc..ts.len()).find(|i| matches!(&ts[*i], Token::Field("length"))).map(|i| i + 1);
            let seq_pos = (alloc..ts.len()).find(|i| matches!(&ts[*i], Token::Field("free"))).map(|i| i + 1);
            if let (Some(lp), Some(sp)) = (len_pos, seq_pos) {
                let n = if let Token::U64(n) = &ts[lp] { *n } else { 0 };
                if kind == "alias-shrink" && bi + 1 == n {
                    out[lp] = Token::U64(n - 1);
                } else if let Token::Seq { len: Some(k) } = &ts[sp] {
                    out[sp] = Token::Seq { len: Some(k + 1) };
                    let ins = vec![
                        Token::Struct { name: "Identifier", len: 2 },
                        Token::Field("index"),
                        Token::U64(bi),
                        Token::Field("generation"),
                        Token::U64(bg),
                        Token::StructEnd,
                    ];
                    for (k2, t) in ins.into_iter().enumerate() {
                        out.insert(sp + 1 + k2, t);
                    }
                }
            }
            (out, format!("{kind}: row@{b} ({bi}.{bg}) := row@{a} ({ai}.{ag})"))
        }
        _ => (out, "none".into()),
    }
}

fn paths(v: &Value, cur: &mut Vec<String>, out: &mut Vec<(Vec<String>, bool)>) {
    match v {
        Value::Array(a) => {
            for (i, x) in a.iter().enumerate() {
                cur.push(i.to_string());
                out.push((cur.clone(), x.is_number()));
                paths(x, cur, out);
                cur.pop();
            }
        }
        Value::Object(o) => {
            for (k, x) in o.iter() {
                cur.push(k.clone());
                out.push((cur.clone(), x.is_number()));
                paths(x, cur, out);
                cur.pop();
            }
        }
        _ => {}
    }
}
fn parent_mut<'a>(v: &'a mut Value, path: &[String]) -> &'a mut Value {
    let mut cur = v;
    for p in &path[..path.len() - 1] {
        cur = match cur {
            Value::Array(a) => &mut a[p.parse::<usize>().unwrap()],
            Value::Object(o) => o.get_mut(p).unwrap(),
            _ => unreachable!(),
        };
    }
    cur
}

pub fn mutate_json(text: &str, kind: &str, pos: usize) -> (String, String) {
    let mut v: Value = serde_json::from_str(text).unwrap();
    let mut ps = Vec::new();
    paths(&v, &mut Vec::new(), &mut ps);
    if ps.is_empty() {
        return (text.to_string(), "empty".into());
    }
    let numeric: Vec<&(Vec<String>, bool)> = ps.iter().filter(|p| p.1).collect();
    let desc;
    match kind {
        "num+1" | "num-1" | "num0" | "numbig" => {
            if numeric.is_empty() {
                return (text.to_string(), "no-number".into());
            }
            let p = numeric[pos % numeric.len()].0.clone();
            let last = p.last().unwrap().clone();
            let parent = parent_mut(&mut v, &p);
            let slot = match parent {
                Value::Array(a) => &mut a[last.parse::<usize>().unwrap()],
                Value::Object(o) => o.get_mut(&last).unwrap(),
                _ => unreachable!(),
            };
            let x = slot.as_u64().unwrap_or(0);
            let nx = match kind {
                "num+1" => x + 1,
                "num-1" => x.saturating_sub(1),
                "num0" => 0,
                _ => 1_000_003,
            };
            *slot = Value::from(nx);
            desc = format!("{kind}@{}:{x}->{nx}", p.join("/"));
        }
        "delelem" | "dupelem" | "swapelem" => {
            let p = ps[pos % ps.len()].0.clone();
            let last = p.last().unwrap().clone();
            let parent = parent_mut(&mut v, &p);
            match parent {
                Value::Array(a) => {
                    let i = last.parse::<usize>().unwrap();
                    match kind {
                        "delelem" => {
                            a.remove(i);
                        }
                        "dupelem" => {
                            let c = a[i].clone();
                            a.insert(i, c);
                        }
                        _ => {
                            if i + 1 < a.len() {
                                a.swap(i, i + 1);
                            }
                        }
                    }
                }
                Value::Object(o) => {
                    if kind == "delelem" {
                        o.remove(&last);
                    }
                }
                _ => {}
            }
            desc = format!("{kind}@{}", p.join("/"));
        }
        "key" => {
            // rename an object key
            let objs: Vec<&(Vec<String>, bool)> = ps.iter().filter(|p| p.0.last().unwrap().parse::<usize>().is_err()).collect();
            if objs.is_empty() {
                return (text.to_string(), "no-key".into());
            }
            let p = objs[pos % objs.len()].0.clone();
            let last = p.last().unwrap().clone();
            if let Value::Object(o) = parent_mut(&mut v, &p) {
                if let Some(x) = o.remove(&last) {
                    let nk = match last.as_str() {
                        "index" => "generation",
                        "generation" => "index",
                        "length" => "free",
                        "free" => "length",
                        _ => "bogus",
                    };
                    if !o.contains_key(nk) {
                        o.insert(nk.to_string(), x);
                    } else {
                        o.insert("bogus".to_string(), x);
                    }
                }
            }
            desc = format!("key@{}", p.join("/"));
        }
        _ => desc = "none".into(),
    }
    (v.to_string(), desc)
}

// ---- structured mutations of the JSON encoding (vocabulary of spec/Serde.tla) ----------------------
/// The JSON encoding of a world is `[archetypes, {"length": n, "free": [{index, generation}..]}, resources]`,
/// an archetype is `[identifier bytes, declared length, rows]`, a row is `[{index, generation}, components..]`.
/// A mutation is `{k, a, r, v, g}` with 1-based positions; out-of-range positions are no-ops (exactly as
/// `ApplyMut` in spec/Serde.tla).
pub fn apply_struct_muts(text: &str, muts: &[Value]) -> String {
    let mut v: Value = serde_json::from_str(text).unwrap();
    for m in muts {
        let k = m["k"].as_str().unwrap_or("");
        let a = m["a"].as_u64().unwrap_or(0) as usize;
        let r = m["r"].as_u64().unwrap_or(0) as usize;
        let val = m["v"].as_u64().unwrap_or(0);
        let g = m["g"].as_u64().unwrap_or(0);
        let narch = v[0].as_array().map(|x| x.len()).unwrap_or(0);
        let in_a = a >= 1 && a <= narch;
        let nrows = if in_a { v[0][a - 1][2].as_array().map(|x| x.len()).unwrap_or(0) } else { 0 };
        let in_r = in_a && r >= 1 && r <= nrows;
        let nfree = v[1]["free"].as_array().map(|x| x.len()).unwrap_or(0);
        let in_f = r >= 1 && r <= nfree;
        match k {
            "row_index" if in_r => v[0][a - 1][2][r - 1][0]["index"] = Value::from(val),
            "row_gen" if in_r => v[0][a - 1][2][r - 1][0]["generation"] = Value::from(val),
            "row_del" if in_r => {
                v[0][a - 1][2].as_array_mut().unwrap().remove(r - 1);
            }
            "row_dup" if in_r => {
                let c = v[0][a - 1][2][r - 1].clone();
                v[0][a - 1][2].as_array_mut().unwrap().insert(r - 1, c);
            }
            "arch_len" if in_a => v[0][a - 1][1] = Value::from(val),
            "arch_bits" if in_a => {
                let n = v[0][a - 1][0].as_array().map(|x| x.len()).unwrap_or(0);
                let bytes: Vec<Value> = (0..n).map(|i| Value::from((val >> (8 * i)) & 255)).collect();
                v[0][a - 1][0] = Value::Array(bytes);
            }
            "arch_del" if in_a => {
                v[0].as_array_mut().unwrap().remove(a - 1);
            }
            "arch_dup" if in_a => {
                let c = v[0][a - 1].clone();
                v[0].as_array_mut().unwrap().insert(a - 1, c);
            }
            "alloc_len" => v[1]["length"] = Value::from(val),
            "free_del" if in_f => {
                v[1]["free"].as_array_mut().unwrap().remove(r - 1);
            }
            "free_dup" if in_f => {
                let c = v[1]["free"][r - 1].clone();
                v[1]["free"].as_array_mut().unwrap().insert(r - 1, c);
            }
            "free_push" => v[1]["free"].as_array_mut().unwrap().push(serde_json::json!({"index": val, "generation": g})),
            "free_index" if in_f => v[1]["free"][r - 1]["index"] = Value::from(val),
            "free_gen" if in_f => v[1]["free"][r - 1]["generation"] = Value::from(val),
            _ => {}
        }
    }
    v.to_string()
}
