//! Allocation-protocol recorder (C05).
//!
//! A `#[global_allocator]` wrapper that, when enabled, keeps a book of every allocation of the
//! process (pointer -> size, align, origin, live/dead) and logs the events that concern the
//! library: every event issued while the current thread is inside a library call (`in_lib`), and
//! every later event on a block that was allocated inside a library call.  Blocks freed inside a
//! library call are poisoned and quarantined (never handed out again), so that a second free or a
//! read through a stale pointer is observed as data instead of crashing the process; `realloc`
//! inside a library call always moves the block.  The recorder does not judge anything: the
//! protocol is checked by TLC (TraceWorld, C05 checks) from the logged events.

use std::alloc::{GlobalAlloc, Layout, System};
use std::cell::Cell;
use std::collections::HashMap;
use std::sync::atomic::{AtomicBool, Ordering};
use std::sync::Mutex;

#[derive(Clone, Debug)]
pub struct HeapEv {
    pub k: &'static str, // alloc | dealloc | realloc
    pub id: u64,         // block number (0: block not allocated inside a library call)
    pub size: usize,     // requested size (for dealloc: the size passed to dealloc)
    pub align: usize,
    pub new_size: usize, // realloc only
    pub new_id: u64,     // realloc only
    pub state: &'static str, // live | dead | unknown: what the book says about the block
    pub ksize: usize,    // size the block was allocated with, per the book
    pub kalign: usize,
    pub in_lib: bool,
}

struct Block {
    size: usize,
    align: usize,
    id: u64,
    live: bool,
}

struct Book {
    blocks: Option<HashMap<usize, Block>>,
    log: Vec<HeapEv>,
    next_id: u64,
}

static ENABLED: AtomicBool = AtomicBool::new(false);
static BOOK: Mutex<Book> = Mutex::new(Book { blocks: None, log: Vec::new(), next_id: 1 });

thread_local! {
    static BUSY: Cell<bool> = const { Cell::new(false) };
    static IN_LIB: Cell<u32> = const { Cell::new(0) };
}

pub struct Tracker;

pub fn enable() {
    ENABLED.store(true, Ordering::SeqCst);
}

/// Run a library call: allocator events on this thread are attributed to the library.
#[inline]
pub fn lib<T>(f: impl FnOnce() -> T) -> T {
    IN_LIB.with(|c| c.set(c.get() + 1));
    struct Guard;
    impl Drop for Guard {
        fn drop(&mut self) {
            IN_LIB.with(|c| c.set(c.get() - 1));
        }
    }
    let _g = Guard;
    f()
}

/// Run harness bookkeeping (ledger, logs) that happens to execute inside a library call, e.g. in a
/// component's Drop: its allocations are not attributed to the library.
#[inline]
pub fn harness<T>(f: impl FnOnce() -> T) -> T {
    let saved = IN_LIB.try_with(|c| c.replace(0)).unwrap_or(0);
    let r = f();
    let _ = IN_LIB.try_with(|c| c.set(saved));
    r
}

pub fn drain() -> Vec<HeapEv> {
    with_book(|b| std::mem::take(&mut b.log)).unwrap_or_default()
}

fn with_book<T>(f: impl FnOnce(&mut Book) -> T) -> Option<T> {
    // re-entrancy guard: allocations made by the book itself are not recorded
    let busy = BUSY.try_with(|b| b.replace(true)).unwrap_or(true);
    if busy {
        return None;
    }
    let r = {
        let mut g = BOOK.lock().unwrap_or_else(|e| e.into_inner());
        if g.blocks.is_none() {
            g.blocks = Some(HashMap::new());
        }
        f(&mut g)
    };
    let _ = BUSY.try_with(|b| b.set(false));
    Some(r)
}

fn in_lib() -> bool {
    IN_LIB.try_with(|c| c.get() > 0).unwrap_or(false)
}

unsafe impl GlobalAlloc for Tracker {
    unsafe fn alloc(&self, layout: Layout) -> *mut u8 {
        let p = System.alloc(layout);
        if !ENABLED.load(Ordering::Relaxed) || p.is_null() {
            return p;
        }
        let lib = in_lib();
        with_book(|b| {
            let id = if lib {
                let id = b.next_id;
                b.next_id += 1;
                id
            } else {
                0
            };
            b.blocks.as_mut().unwrap().insert(p as usize, Block { size: layout.size(), align: layout.align(), id, live: true });
            if lib {
                b.log.push(HeapEv { k: "alloc", id, size: layout.size(), align: layout.align(), new_size: 0, new_id: 0, state: "live", ksize: layout.size(), kalign: layout.align(), in_lib: true });
            }
        });
        p
    }

    unsafe fn dealloc(&self, p: *mut u8, layout: Layout) {
        if !ENABLED.load(Ordering::Relaxed) {
            return System.dealloc(p, layout);
        }
        let lib = in_lib();
        // decision: Some(true) = really free, Some(false) = quarantine / ignore
        let decision = with_book(|b| {
            let blocks = b.blocks.as_mut().unwrap();
            match blocks.get_mut(&(p as usize)) {
                Some(blk) => {
                    let (id, ks, ka, was_live) = (blk.id, blk.size, blk.align, blk.live);
                    if lib || id != 0 {
                        b.log.push(HeapEv { k: "dealloc", id, size: layout.size(), align: layout.align(), new_size: 0, new_id: 0, state: if was_live { "live" } else { "dead" }, ksize: ks, kalign: ka, in_lib: lib });
                    }
                    if !was_live {
                        return false; // second free of a quarantined block: recorded, not executed
                    }
                    if lib {
                        blk.live = false; // quarantine
                        false
                    } else {
                        blocks.remove(&(p as usize));
                        true
                    }
                }
                None => {
                    if lib {
                        b.log.push(HeapEv { k: "dealloc", id: 0, size: layout.size(), align: layout.align(), new_size: 0, new_id: 0, state: "unknown", ksize: 0, kalign: 0, in_lib: true });
                    }
                    // allocated before the recorder was enabled (or by the book itself)
                    !lib
                }
            }
        });
        match decision {
            Some(true) | None => System.dealloc(p, layout),
            Some(false) => {
                // poison what the book says is there (never more than the block really has)
                let n = with_book(|b| b.blocks.as_ref().unwrap().get(&(p as usize)).map(|x| x.size).unwrap_or(0)).unwrap_or(0);
                if n > 0 {
                    std::ptr::write_bytes(p, 0xDD, n);
                }
            }
        }
    }

    unsafe fn realloc(&self, p: *mut u8, layout: Layout, new_size: usize) -> *mut u8 {
        if !ENABLED.load(Ordering::Relaxed) {
            return System.realloc(p, layout, new_size);
        }
        let lib = in_lib();
        let known = with_book(|b| b.blocks.as_ref().unwrap().get(&(p as usize)).map(|x| (x.id, x.size, x.align, x.live)));
        match known {
            None => System.realloc(p, layout, new_size), // book busy (re-entrant): not recorded
            Some(None) => {
                if lib {
                    with_book(|b| b.log.push(HeapEv { k: "realloc", id: 0, size: layout.size(), align: layout.align(), new_size, new_id: 0, state: "unknown", ksize: 0, kalign: 0, in_lib: true }));
                }
                System.realloc(p, layout, new_size)
            }
            Some(Some((id, ks, ka, live))) => {
                if !lib && id == 0 {
                    // harness block, harness call: plain realloc, keep the book up to date
                    let q = System.realloc(p, layout, new_size);
                    if !q.is_null() {
                        with_book(|b| {
                            let blocks = b.blocks.as_mut().unwrap();
                            blocks.remove(&(p as usize));
                            blocks.insert(q as usize, Block { size: new_size, align: layout.align(), id: 0, live: true });
                        });
                    }
                    return q;
                }
                // library-related: always move, quarantine the old block
                let new_layout = Layout::from_size_align_unchecked(new_size, layout.align());
                let q = System.alloc(new_layout);
                if q.is_null() {
                    return q;
                }
                let copy = ks.min(new_size).min(layout.size());
                if live {
                    std::ptr::copy_nonoverlapping(p, q, copy);
                }
                with_book(|b| {
                    let new_id = if lib || id != 0 {
                        let n = b.next_id;
                        b.next_id += 1;
                        n
                    } else {
                        0
                    };
                    b.log.push(HeapEv { k: "realloc", id, size: layout.size(), align: layout.align(), new_size, new_id, state: if live { "live" } else { "dead" }, ksize: ks, kalign: ka, in_lib: lib });
                    let blocks = b.blocks.as_mut().unwrap();
                    if let Some(blk) = blocks.get_mut(&(p as usize)) {
                        blk.live = false;
                    }
                    blocks.insert(q as usize, Block { size: new_size, align: layout.align(), id: new_id, live: true });
                });
                if live {
                    std::ptr::write_bytes(p, 0xDD, ks);
                }
                q
            }
        }
    }
}
