#!/usr/bin/env python3
"""./check --selftest : demonstrate the binding between specifications and code.

1. Record real traces (world, schedule, fault, precondition), corrupt ONE field of ONE event in ways
   that correspond to real bug classes, and require TLC to report the expected property.
2. Run TLC with -coverage on the bounded models and require every action to have been taken
   (vacuity guard).
Exit 0 when every corruption is detected and no action is dead."""
import copy, json, os, re, shutil, sys, time
from vlib import *
import pipe_sched

def load(p):
    return [json.loads(l) for l in open(p)]

def save(p, evs):
    with open(p, "w") as f:
        for e in evs:
            f.write(json.dumps(e) + "\n")

def expect(spec, cfg, evs, prop, tag, d, results):
    p = os.path.join(d, "corrupt-%s.ndjson" % tag)
    save(p, evs)
    r = tlc_trace(spec, cfg, p, p + ".meta")
    props = sorted({f[0] for f in r["fails"]})
    ok = prop in props
    results.append((tag, prop, ok, props))
    log("[selftest] %-34s expect %-4s -> %s %s" % (tag, prop, "detected" if ok else "MISSED", props))

def first(evs, pred, start=5):
    for i in range(start, len(evs)):
        if pred(evs[i]):
            return i
    raise ToolError("selftest: no event matches")

def main():
    d = os.path.join(WORK, "selftest")
    shutil.rmtree(d, ignore_errors=True)
    os.makedirs(d)
    build_harness(["worlddrv", "faultdrv", "preconddrv", "sched_q00"])
    results = []
    # ---- world trace ---------------------------------------------------------------------------
    base = os.path.join(d, "world.ndjson")
    sh([bin_path("worlddrv"), "random", "4242", "1", "260", base, "queries"])
    evs = load(base)
    r = tlc_trace("TraceWorld.tla", "TraceWorld.cfg", base, base + ".meta")
    if [f for f in r["fails"] if f[0] not in ("INFO",)]:
        raise ToolError("selftest: the uncorrupted trace is not accepted: %s" % r["fails"][:3])
    livew = lambda e: next((w for w in e["obs"]["ws"] if w.get("live") and len(w["ents"]) >= 2), None)

    def mut(tag, prop, pred, fn):
        c = copy.deepcopy(evs)
        i = first(c, pred)
        fn(c[i])
        expect("TraceWorld.tla", "TraceWorld.cfg", c, prop, tag, d, results)

    mut("free-list-entry-lost", "C13", lambda e: any(w.get("live") and w["dump"]["free"] for w in e["obs"]["ws"]),
        lambda e: next(w for w in e["obs"]["ws"] if w.get("live") and w["dump"]["free"])["dump"]["free"].pop())
    def swap_rows(e):
        w = next(w for w in e["obs"]["ws"] if w.get("live") and any(len(t["ids"]) >= 2 for t in w["dump"]["tables"]))
        t = next(t for t in w["dump"]["tables"] if len(t["ids"]) >= 2)
        for k in ("ids", "idx", "idg"):
            t[k][0], t[k][1] = t[k][1], t[k][0]
    mut("two-rows-swapped-in-table", "C02", lambda e: any(w.get("live") and any(len(t["ids"]) >= 2 for t in w["dump"]["tables"]) for w in e["obs"]["ws"]), swap_rows)
    def bump_value(e):
        w = livew(e)
        ent = next(iter(w["ents"].values()))
        c = next(k for k in ent if k in ("S", "W", "H"))
        ent[c]["v"] += 1
    mut("component-value-changed", "C01", lambda e: livew(e) and any(k in ("S", "W", "H") for x in livew(e)["ents"].values() for k in x) and e["op"] in ("remove", "shrink", "reserve", "insert"), bump_value)
    mut("drop-event-removed", "C04", lambda e: any(x["k"] == "drop" and x["c"] in ("S", "W", "H") for x in e["led"]),
        lambda e: e["led"].remove(next(x for x in e["led"] if x["k"] == "drop" and x["c"] in ("S", "W", "H"))))
    def dup_drop(e):
        x = next(x for x in e["led"] if x["k"] == "drop" and x["c"] in ("S", "W", "H"))
        e["led"].append(dict(x))
    mut("value-dropped-twice", "C04", lambda e: any(x["k"] == "drop" and x["c"] in ("S", "W", "H") for x in e["led"]), dup_drop)
    def flip_probe(e):
        w = next(w for w in e["obs"]["ws"] if w.get("live") and any(not p["con"] for p in w["probes"].values()))
        p = next(p for p in w["probes"].values() if not p["con"])
        p["con"] = True
    mut("dead-identifier-accepted", "C02", lambda e: any(w.get("live") and any(not p["con"] for p in w["probes"].values()) for w in e["obs"]["ws"]), flip_probe)
    def res_change(e):
        w = next(w for w in e["obs"]["ws"] if w.get("live"))
        w["res"]["RB"]["v"] += 1
    mut("resource-changed-by-entity-op", "C15", lambda e: e["op"] in ("insert", "remove", "add", "remc"), res_change)
    def eq_flip(e):
        ws = e["obs"]["ws"]
        i = next(i for i, w in enumerate(ws) if w.get("live"))
        ws[i]["eq"][i] = False
    mut("world-not-equal-to-itself", "C16", lambda e: True, eq_flip)
    def drop_item(e):
        e["res"]["items"].pop()
    mut("query-result-missing", "C03", lambda e: e["op"] == "query" and e["desc"]["kind"] == "iter" and len(e["res"]["items"]) >= 1, drop_item)
    def hint_wrong(e):
        e["res"]["hints"][0][0] = len(e["res"]["items"]) + 3
    mut("size_hint-lower-bound-too-high", "C03", lambda e: e["op"] == "query" and e["desc"]["kind"] == "iter" and e.get("st", 0) == 0 and e["res"]["hints"], hint_wrong)
    def heap_size(e):
        h = next(h for h in e["heap"] if h["k"] == "dealloc" and h["st"] == "live")
        h["s"] += 8
    mut("free-with-wrong-size", "C05", lambda e: any(h["k"] == "dealloc" and h["st"] == "live" for h in e.get("heap", [])), heap_size)
    def heap_dead(e):
        h = next(h for h in e["heap"] if h["k"] == "dealloc")
        h["st"] = "dead"
    mut("double-free", "C05", lambda e: any(h["k"] == "dealloc" for h in e.get("heap", [])), heap_dead)
    def serde_fail(e):
        e["res"]["ok"] = False
    try:
        mut("round-trip-error", "C06", lambda e: e["op"] == "serde", serde_fail)
    except ToolError:
        pass
    def new_old_id(e):
        w = e["obs"]["ws"][e["w"] - 1]
    # ---- registries of other sizes (RegN) -------------------------------------------------------
    build_harness(["worlddrv", "regndrv"])
    rbase = os.path.join(d, "regn.ndjson")
    sh([bin_path("regndrv"), "7", "30", rbase])
    revs = load(rbase)
    r = tlc_trace("TraceRegN.tla", "TraceRegN.cfg", rbase, rbase + ".meta")
    if r["fails"]:
        raise ToolError("selftest: the uncorrupted regn trace is not accepted: %s" % r["fails"][:3])
    def rmut(tag, prop, pred, fn):
        c = copy.deepcopy(revs)
        i = first(c, pred, 0)
        fn(c[i])
        expect("TraceRegN.tla", "TraceRegN.cfg", c, prop, tag, d, results)
    def setf(path, val):
        def f(e):
            x = e
            for k in path[:-1]:
                x = x[k]
            x[path[-1]] = val
        return f
    rmut("regn-roundtrip-rejected-n8", "C06", lambda e: e["n"] == 8 and e["masks"], setf(["res", "ok"], False))
    rmut("regn-padding-bit-accepted", "C11", lambda e: e["res"]["pad"] == "rejected", setf(["res", "pad"], "accepted"))
    rmut("regn-identifier-byte-wrong", "C06", lambda e: e["n"] == 16 and e["enc"] == "json" and e["res"]["wire"],
         lambda e: e["res"]["wire"][0].__setitem__(1, (e["res"]["wire"][0][1] + 1) % 256))
    rmut("regn-query-reads-other-column", "C03", lambda e: e["n"] == 17 and any(c[0] for c in e["res"]["pre"]["counts"]),
         lambda e: next(c for c in e["res"]["pre"]["counts"] if c[0]).__setitem__(1, 1))
    rmut("regn-table-missing", "C13", lambda e: len(e["res"]["pre"]["tables"]) >= 2, lambda e: e["res"]["pre"]["tables"].pop())
    # ---- schedule trace ------------------------------------------------------------------------
    sb = os.path.join(d, "sched.ndjson")
    sh([bin_path("sched_q00"), sb])
    lines = open(sb).read().splitlines()
    # take the first run with 3 tasks in two stages: move the last fork before the first join
    evs2 = [json.loads(l) for l in lines[:4000]]
    # keep whole runs only
    last_end = max(i for i, e in enumerate(evs2) if e.get("ev") == "end")
    evs2 = evs2[:last_end + 1]
    r = tlc_trace("TraceSchedule.tla", "TraceSchedule.cfg", sb, sb + ".meta")
    if r["fails"]:
        raise ToolError("selftest: the uncorrupted schedule trace is not accepted")
    c = copy.deepcopy(evs2)
    # find a run where some fork happens after a join (two stages) and the tasks conflict: move it
    done = False
    start = 0
    for i, e in enumerate(c):
        if e.get("ev") == "sched":
            start = i
        if e.get("ev") == "fork" and not done:
            prev_joins = [j for j in range(start, i) if c[j].get("ev") == "join"]
            opens = [j for j in range(start, i) if c[j].get("ev") == "fork"]
            if prev_joins and opens:
                ev = c.pop(i)
                c.insert(opens[0] + 1, ev)   # fork it while the first stage is still open
                done = True
                break
    if done:
        expect("TraceSchedule.tla", "TraceSchedule.cfg", c, "C08", "second-stage-task-forked-early", d, results)
    c = copy.deepcopy(evs2)
    i = next(i for i, e in enumerate(c) if e.get("ev") == "task_begin")
    c.insert(i + 2, dict(c[i]))
    c.insert(i + 3, dict(c[i + 1]))
    expect("TraceSchedule.tla", "TraceSchedule.cfg", c, "C07", "task-ran-twice", d, results)
    c = copy.deepcopy(evs2)
    i = next(i for i, e in enumerate(c) if e.get("ev") == "end" and e["final"]["ents"])
    k = next(iter(c[i]["final"]["ents"]))
    comp = next(iter(c[i]["final"]["ents"][k]), None)
    if comp:
        c[i]["final"]["ents"][k][comp] += 1
        expect("TraceSchedule.tla", "TraceSchedule.cfg", c, "C07", "final-state-differs", d, results)
    # serialise a parallel pair: a run of two read-only tasks (certainly one greedy group); make
    # the second fork happen only after the first task was joined
    RO = {"K00", "K02", "K04", "K06", "K08", "K10"}
    allruns = [json.loads(l) for l in lines]
    c = None
    i = 0
    while i < len(allruns):
        e = allruns[i]
        if e.get("ev") == "sched" and len(e["names"]) == 2 and set(e["names"]) <= RO and e["mode"] == "det":
            j = next(j for j in range(i, len(allruns)) if allruns[j].get("ev") == "end")
            run = allruns[i:j + 1]
            forks = [k for k, x in enumerate(run) if x.get("ev") == "fork"]
            if len(forks) == 2:
                t1, t2 = run[forks[0]]["t"], run[forks[1]]["t"]
                hdr, end = run[0], run[-1]
                def tev(t, n):
                    return [{"ev": "fork", "n": n, "t": t}, {"ev": "task_begin", "n": n, "t": t},
                            {"ev": "task_end", "n": n, "t": t}, {"ev": "join", "n": n, "t": t}]
                c = [hdr] + tev(t1, 1) + tev(t2, 2) + [end]
                break
        i += 1
    if c:
        expect("TraceSchedule.tla", "TraceSchedule.cfg", c, "C12", "independent-tasks-serialised", d, results)
    # ---- fault trace ---------------------------------------------------------------------------
    fb = os.path.join(d, "fault.ndjson")
    sh([bin_path("faultdrv"), "run", fb, "90", "100"])   # clone scenarios (clean on the unchanged tree)
    evs3 = load(fb)
    c = copy.deepcopy(evs3)
    i = next(i for i, e in enumerate(c) if e["ev"] == "dropped" and any(x["k"] == "drop" and x["c"] in ("S", "W", "H") for x in e["led"]))
    x = next(x for x in c[i]["led"] if x["k"] == "drop" and x["c"] in ("S", "W", "H"))
    c[i]["led"].append(dict(x))
    expect("TracePanic.tla", "TracePanic.cfg", c, "C17", "double-drop-after-panic", d, results)
    c = copy.deepcopy(evs3)
    i = next(i for i, e in enumerate(c) if e["ev"] == "fault")
    c[i]["panicked"] = False
    c[i]["fired"] = True
    expect("TracePanic.tla", "TracePanic.cfg", c, "C17", "panic-swallowed", d, results)
    # ---- preconditions -------------------------------------------------------------------------
    pb = os.path.join(d, "precond.ndjson")
    sh([bin_path("preconddrv"), pb])
    evs4 = load(pb)
    c = copy.deepcopy(evs4)
    i = next(i for i, e in enumerate(c) if e["ev"] == "ctor" and e["outcome"] == "panicked")
    c[i]["outcome"] = "returned"
    expect("TracePrecond.tla", "TracePrecond.cfg", c, "C18", "duplicate-registry-accepted", d, results)
    c = [e for k, e in enumerate(evs4) if k != 5]
    expect("TracePrecond.tla", "TracePrecond.cfg", c, "C18", "enumeration-incomplete", d, results)
    # ---- vacuity: every action of the bounded models is taken ----------------------------------
    dead = []
    for spec, cfg in (("MCWorld.tla", "MCWorld2q.cfg"), ("MCSchedule.tla", "MCSchedule2.cfg"), ("Ledger.tla", "Ledger.cfg"),
                      ("Heap.tla", "Heap.cfg")):
        r = tlc_mc(spec, cfg, os.path.join(d, cfg + ".meta"), workers=8, timeout=1800, extra=["-coverage", "1"])
        if not r["ok"]:
            raise ToolError("selftest: model %s fails" % cfg)
        for m in re.finditer(r"<(\w+) line \d+, col \d+ to line \d+, col \d+ of module \w+>: (\d+):(\d+)", r["out"]):
            if int(m.group(3)) == 0 and m.group(1) not in ("Init", "Finished"):
                dead.append("%s:%s" % (cfg, m.group(1)))
        log("[selftest] coverage %s: %d distinct states, dead actions so far: %s" % (cfg, r["distinct"], dead))
    missed = [t for t in results if not t[2]]
    report = {"corruptions": [{"tag": t[0], "expected": t[1], "detected": t[2], "reported": t[3]} for t in results],
              "dead_actions": sorted(set(dead))}
    json.dump(report, open(os.path.join(VERIF, "evidence", "selftest.json"), "w"), indent=1)
    print("SELFTEST %d corruptions, %d detected, dead actions: %s" % (len(results), len(results) - len(missed), sorted(set(dead))))
    shutil.rmtree(d, ignore_errors=True)
    sys.exit(0 if not missed and not dead else 1)

if __name__ == "__main__":
    main()
