"""C14 pipeline: TLC enumerates the program family and its labels from spec/Borrow.tla; each case is
turned into a Rust program; rustc (type-check only, against the freshly built brood rlib) is the
implementation under test; spec/TraceBorrow.tla compares the verdicts with the labels."""
import glob, json, os, re, shutil, subprocess, time
from vlib import *

PRELUDE = '''#![allow(unused, dead_code)]
use brood::{entity, entities, entity::Identifier, query::{filter, result, Result, Views}, registry, resources,
            system::{schedule, schedule::task, ParSystem, System}, Query, Registry, Resources, World};
use rayon::iter::ParallelIterator;
pub struct A(pub u32);
pub struct B(pub u32);
pub struct X(pub u32);
pub struct RA(pub u32);
pub struct RB(pub u32);
pub struct RX(pub u32);
type Reg = Registry!(A, B);
type Res = Resources!(RA, RB);
fn mk() -> World<Reg, Res> { World::with_resources(resources!(RA(1), RB(2))) }
fn use1<T>(_a: T) {}
fn use2<T, U>(_a: T, _b: U) {}
'''

SYS_TEMPLATE = '''pub struct Sys;
impl System for Sys {
    type Views<'a> = Views!(%s);
    type Filter = filter::None;
    type ResourceViews<'a> = Views!();
    type EntryViews<'a> = Views!(%s);
    fn run<'a, R, S, I, E>(&mut self, q: Result<'a, R, S, I, Self::ResourceViews<'a>, Self::EntryViews<'a>, E>)
    where R: registry::ContainsViews<'a, Self::EntryViews<'a>, E>, I: Iterator<Item = Self::Views<'a>> {}
}
pub fn f(world: &mut World<Reg, Res>) {
    world.run_system(&mut Sys);
}
'''

def ty(k, c):
    return {"ref": "&%s" % c, "mut": "&mut %s" % c, "optref": "Option<&%s>" % c, "optmut": "Option<&mut %s>" % c}[k]

def payload_def(p):
    return {"ok": "pub struct P(pub u32);\nfn mkp() -> P { P(1) }\n",
            "nosend": "pub struct P(pub std::rc::Rc<u32>);\nfn mkp() -> P { P(std::rc::Rc::new(1)) }\n",
            "nosync": "pub struct P(pub std::cell::Cell<u32>);\nfn mkp() -> P { P(std::cell::Cell::new(1)) }\n"}[p]

def placed(items, names, place, ident="Identifier"):
    """view list and result! pattern with an entity identifier view written at `place`"""
    if place == "id_first":
        return [ident] + items, ["i"] + names
    if place == "id_last":
        return items + [ident], names + ["i"]
    if place == "id_mid":
        if len(items) == 1:     # one component view: identifier first (the caller adds resource views)
            return [ident] + items, ["i"] + names
        return items[:1] + [ident] + items[1:], names[:1] + ["i"] + names[1:]
    return items, names

def program(c):
    fam, k1, k2, same, api, pl = c["fam"], c["k1"], c["k2"], c["same"], c["api"], c["payload"]
    s = PRELUDE
    if fam in ("vv", "pv", "ve", "sv") and api != "-":
        if fam == "sv":
            lt = lambda k, c: {"ref": "&'a %s" % c, "mut": "&'a mut %s" % c, "optref": "Option<&'a %s>" % c, "optmut": "Option<&'a mut %s>" % c}[k]
            views, _ = placed([lt(k1, "A")], ["a"], api)
            return s + SYS_TEMPLATE % (", ".join(views), lt(k2, "A" if same else "B"))
        if fam == "ve":
            views, names = placed([ty(k1, "A")], ["a"], api)
            return s + "pub fn f(world: &mut World<Reg, Res>) {\n    let r = world.query(Query::<Views!(%s), filter::None, Views!(%s), Views!(%s)>::new());\n    for result!(%s) in r.iter { use1(a); }\n}\n" % (", ".join(views), "&mut RA" if api == "id_mid" else "", ty(k2, "A" if same else "B"), ", ".join(names))
        views, names = placed([ty(k1, "A"), ty(k2, "A" if same else "B")], ["a", "b"], api)
        if fam == "vv":
            return s + "pub fn f(world: &mut World<Reg, Res>) {\n    for result!(%s) in world.query(Query::<Views!(%s)>::new()).iter { use2(a, b); }\n}\n" % (", ".join(names), ", ".join(views))
        return s + "pub fn f(world: &mut World<Reg, Res>) {\n    world.par_query(Query::<Views!(%s)>::new()).iter.for_each(|result!(%s)| { use2(a, b); });\n}\n" % (", ".join(views), ", ".join(names))
    if fam == "vv":
        s += "pub fn f(world: &mut World<Reg, Res>) {\n    for result!(a, b) in world.query(Query::<Views!(%s, %s)>::new()).iter { use2(a, b); }\n}\n" % (ty(k1, "A"), ty(k2, "A" if same else "B"))
    elif fam == "pv":
        s += "pub fn f(world: &mut World<Reg, Res>) {\n    world.par_query(Query::<Views!(%s, %s)>::new()).iter.for_each(|result!(a, b)| { use2(a, b); });\n}\n" % (ty(k1, "A"), ty(k2, "A" if same else "B"))
    elif fam == "qr":
        s += "pub fn f(world: &mut World<Reg, Res>) {\n    let r = world.query(Query::<Views!(), filter::None, Views!(%s, %s)>::new());\n    let result!(a, b) = r.resources;\n    use2(a, b);\n}\n" % (ty(k1, "RA"), ty(k2, "RA" if same else "RB"))
    elif fam == "sub":
        s += "pub fn f(world: &mut World<Reg, Res>, id: Identifier) {\n    let mut r = world.query(Query::<Views!(), filter::None, Views!(), Views!(%s)>::new());\n    let mut e = r.entries.entry(id).unwrap();\n    let a = e.query(Query::<Views!(%s)>::new());\n    use1(a);\n}\n" % (ty(k1, "A"), ty(k2, "A"))
    elif fam == "sv":
        def lt(k, c):
            return {"ref": "&'a %s" % c, "mut": "&'a mut %s" % c, "optref": "Option<&'a %s>" % c, "optmut": "Option<&'a mut %s>" % c}[k]
        s += SYS_TEMPLATE % (lt(k1, "A"), lt(k2, "A" if same else "B"))
    elif fam == "ve":
        s += "pub fn f(world: &mut World<Reg, Res>) {\n    let r = world.query(Query::<Views!(%s), filter::None, Views!(), Views!(%s)>::new());\n    for result!(a) in r.iter { use1(a); }\n}\n" % (ty(k1, "A"), ty(k2, "A" if same else "B"))
    elif fam == "ee":
        s += "pub fn f(world: &mut World<Reg, Res>) {\n    let r = world.query(Query::<Views!(), filter::None, Views!(), Views!(%s, %s)>::new());\n    use1(r.entries);\n}\n" % (ty(k1, "A"), ty(k2, "A" if same else "B"))
    elif fam == "rr":
        s += "pub fn f(world: &mut World<Reg, Res>) {\n    let result!(a, b) = world.view_resources::<Views!(%s, %s), _>();\n    use2(a, b);\n}\n" % (ty(k1, "RA"), ty(k2, "RA" if same else "RB"))
    elif fam == "rep":
        q1 = "Query::<Views!(%s)>::new()" % ty(k1, "A")
        q2 = "Query::<Views!(%s)>::new()" % ty(k2, "A")
        if api == "world_entry":
            s += "pub fn f(world: &mut World<Reg, Res>, id: Identifier) {\n    let mut e = world.entry(id).unwrap();\n    let a = e.query(%s);\n" % q1
            s += ("    let b = e.query(%s);\n    use2(a, b);\n}\n" % q2) if same else ("    use1(a);\n    let b = e.query(%s);\n    use1(b);\n}\n" % q2)
        elif api == "entries_entry":
            s += "pub fn f(world: &mut World<Reg, Res>, id: Identifier) {\n    let mut r = world.query(Query::<Views!(), filter::None, Views!(), Views!(&mut A)>::new());\n    let mut e = r.entries.entry(id).unwrap();\n    let a = e.query(%s);\n" % q1
            s += ("    let b = e.query(%s);\n    use2(a, b);\n}\n" % q2) if same else ("    use1(a);\n    let b = e.query(%s);\n    use1(b);\n}\n" % q2)
        else:
            s += "pub fn f(world: &mut World<Reg, Res>, id: Identifier) {\n    let mut r = world.query(Query::<Views!(), filter::None, Views!(), Views!(&mut A)>::new());\n"
            if same:
                s += "    let mut e1 = r.entries.entry(id).unwrap();\n    let mut e2 = r.entries.entry(id).unwrap();\n    let a = e1.query(%s);\n    let b = e2.query(%s);\n    use2(a, b);\n}\n" % (q1, q2)
            else:
                s += "    { let mut e1 = r.entries.entry(id).unwrap(); let a = e1.query(%s); use1(a); }\n    { let mut e2 = r.entries.entry(id).unwrap(); let b = e2.query(%s); use1(b); }\n}\n" % (q1, q2)
    elif fam == "out":
        t = "X" if same else "A"
        rt = "RX" if same else "RA"
        if api == "insert":
            s += "pub fn f(world: &mut World<Reg, Res>) { world.insert(entity!(%s(1))); }\n" % t
        elif api == "query":
            s += "pub fn f(world: &mut World<Reg, Res>) { for result!(a) in world.query(Query::<Views!(&%s)>::new()).iter { use1(a); } }\n" % t
        elif api == "entry_add":
            s += "pub fn f(world: &mut World<Reg, Res>, id: Identifier) { world.entry(id).unwrap().add(%s(1)); }\n" % t
        elif api == "resource_get":
            s += "pub fn f(world: &mut World<Reg, Res>) { use1(world.get::<%s, _>()); }\n" % rt
        else:
            s += "pub fn f(world: &mut World<Reg, Res>) { let r = world.query(Query::<Views!(), filter::None, Views!(), Views!(&%s)>::new()); use1(r.entries); }\n" % t
    elif fam == "thr":
        s += payload_def(pl)
        if api == "move_world":
            s += "pub fn f() {\n    let world = World::<Registry!(P, B)>::new();\n    std::thread::scope(|s| { s.spawn(move || { let w = world; drop(w); }); });\n}\n"
        elif api == "share_world":
            s += "pub fn f() {\n    let world = World::<Registry!(P, B)>::new();\n    std::thread::scope(|s| { s.spawn(|| { let _ = world.len(); }); });\n}\n"
        elif api in ("move_iter", "move_iter_mut"):
            v = "&P" if api == "move_iter" else "&mut P"
            s += "pub fn f() {\n    let mut world = World::<Registry!(P, B)>::new();\n    let it = world.query(Query::<Views!(%s)>::new()).iter;\n    std::thread::scope(|s| { s.spawn(move || { for result!(p) in it { use1(p); } }); });\n}\n" % v
        elif api == "move_entries":
            s += "pub fn f(id: Identifier) {\n    let mut world = World::<Registry!(P, B)>::new();\n    let r = world.query(Query::<Views!(), filter::None, Views!(), Views!(&P)>::new());\n    let mut en = r.entries;\n    std::thread::scope(|s| { s.spawn(move || { if let Some(mut e) = en.entry(id) { if let Some(result!(p)) = e.query(Query::<Views!(&P)>::new()) { use1(p); } } }); });\n}\n"
        elif api == "share_entries":
            s += "pub fn f(id: Identifier) {\n    let mut world = World::<Registry!(P, B)>::new();\n    let r = world.query(Query::<Views!(), filter::None, Views!(), Views!(&P)>::new());\n    let en = r.entries;\n    std::thread::scope(|s| { s.spawn(|| { use1(&en); }); });\n}\n"
        elif api in ("par_query", "par_query_mut"):
            v = "&P" if api == "par_query" else "&mut P"
            s += "pub fn f() {\n    let mut world = World::<Registry!(P, B)>::new();\n    world.par_query(Query::<Views!(%s)>::new()).iter.for_each(|result!(p)| { use1(p); });\n}\n" % v
        elif api in ("schedule", "schedule_res"):
            views = "Views!(&'a P)" if api == "schedule" else "Views!()"
            resv = "Views!()" if api == "schedule" else "Views!(&'a P)"
            world = "World::<Registry!(P, B)>::new()" if api == "schedule" else "World::<Registry!(B), Resources!(P)>::with_resources(resources!(mkp()))"
            s += '''pub struct Sys;
impl System for Sys {
    type Views<'a> = %s;
    type Filter = filter::None;
    type ResourceViews<'a> = %s;
    type EntryViews<'a> = Views!();
    fn run<'a, R, S, I, E>(&mut self, q: Result<'a, R, S, I, Self::ResourceViews<'a>, Self::EntryViews<'a>, E>)
    where R: registry::ContainsViews<'a, Self::EntryViews<'a>, E>, I: Iterator<Item = Self::Views<'a>> {}
}
pub fn f() {
    let mut world = %s;
    let mut sch = schedule!(task::System(Sys));
    world.run_schedule(&mut sch);
}
''' % (views, resv, world)
        elif api == "move_world_res":
            s += "pub fn f() {\n    let world = World::<Registry!(B), Resources!(P)>::with_resources(resources!(mkp()));\n    std::thread::scope(|s| { s.spawn(move || { let w = world; drop(w); }); });\n}\n"
    return s

def enumerate_cases():
    p = sh(java_cmd("2g", deque=False, xss="64m") + ["-workers", "1", "-noGenerateSpecTE", "-metadir", os.path.join(WORK, "mc", "borrow.meta"),
                                    "-cleanup", "-config", "MCBorrow.cfg", "MCBorrow.tla"], cwd=SPEC, timeout=600, check=False)
    if "No error has been found" not in p.stdout:
        raise ToolError("Borrow.tla labelling is inconsistent:\n" + p.stdout[-3000:])
    cases = []
    for m in re.finditer(r'<<"CASE", "([^"]*)", "([^"]*)", "(\{.*\})">>', p.stdout):
        cases.append({"id": m.group(1), "label": m.group(2), "case": json.loads(m.group(3).replace('\\"', '"'))})
    return cases

def run_borrow(tier, seed):
    key = content_key()
    r = cache_get("borrow", key)
    if r:
        return r
    t0 = time.time()
    build_harness(["worlddrv"])    # builds brood (with serde + rayon) and its dependencies
    deps = os.path.join(HARNESS, "target", "release", "deps")
    def newest(pat):
        fs = sorted(glob.glob(os.path.join(deps, pat)), key=os.path.getmtime)
        if not fs:
            raise ToolError("missing rlib " + pat)
        return fs[-1]
    brood, rayon = newest("libbrood-*.rlib"), newest("librayon-*.rlib")
    cases = enumerate_cases()
    d = os.path.join(WORK, "cache", key, "borrow.d")
    shutil.rmtree(d, ignore_errors=True)
    os.makedirs(d)
    def one(c):
        src = os.path.join(d, c["id"].replace("-", "x") + ".rs")
        open(src, "w").write(program(c["case"]))
        cmd = ["rustc", "--edition", "2021", "--crate-type", "lib", "--emit=metadata", "--error-format=json",
               "-L", "dependency=" + deps, "--extern", "brood=" + brood, "--extern", "rayon=" + rayon,
               "--cfg", "brood_verif", "-A", "warnings", "-o", src + ".rmeta", src]
        p = subprocess.run(cmd, stdout=subprocess.PIPE, stderr=subprocess.PIPE, text=True, timeout=600)
        codes = []
        for l in p.stderr.splitlines():
            try:
                m = json.loads(l)
                if m.get("level") == "error" and m.get("code"):
                    codes.append(m["code"]["code"])
                elif m.get("level") == "error" and "aborting" not in m.get("message", ""):
                    codes.append("E?:" + m.get("message", "")[:60])
            except Exception:
                pass
        ice = "internal compiler error" in p.stderr
        return {"id": c["id"], "label": c["label"], "case": c["case"], "verdict": "accepted" if p.returncode == 0 else "rejected",
                "codes": sorted(set(codes))[:4], "ice": ice, "src": src}
    results = parallel(one, cases)
    trace = os.path.join(d, "borrow.ndjson")
    with open(trace, "w") as f:
        for r in results:
            f.write(json.dumps({"id": r["id"], "case": r["case"], "verdict": r["verdict"], "codes": r["codes"], "ice": r["ice"]}) + "\n")
    res = tlc_trace("TraceBorrow.tla", "TraceBorrow.cfg", trace, trace + ".meta")
    fails = []
    for (prop, line, name, cur) in res["fails"]:
        r = results[line - 1]
        fails.append({"prop": prop, "name": name, "id": r["id"], "label": r["label"], "verdict": r["verdict"], "codes": r["codes"], "replay": r["src"]})
    out = {"fails": fails, "programs": len(results),
           "reject_cases": sum(1 for r in results if r["label"] == "reject"),
           "control_cases": sum(1 for r in results if r["label"] == "compile"),
           "either_cases": sum(1 for r in results if r["label"] == "either"),
           "samples": [{"id": r["id"], "label": r["label"], "verdict": r["verdict"], "codes": r["codes"]} for r in results[:3] + results[-3:]],
           "error_codes": sorted({c for r in results for c in r["codes"]}), "wall": time.time() - t0}
    cache_put("borrow", key, out)
    return out
