#!/usr/bin/env python3
"""seed.py confirm <worktree> <seed-id>      confirm a sub-agent's change in its scratch worktree
                                            (existing suite passes, demo fails with / passes without)
                                            and store it as /verif/seeded/<seed-id>/
   seed.py run <seed-id> <prop> [tier]      apply seeded/<seed-id>/patch.diff to /repo, run
                                            ./check <prop>, undo the patch, record the outcome."""
import json, os, shutil, subprocess, sys, time, glob

V = os.path.dirname(os.path.dirname(os.path.abspath(__file__)))

def sh(cmd, cwd=None, timeout=3600, env=None):
    e = dict(os.environ)
    e["CARGO_NET_OFFLINE"] = "true"
    if env:
        e.update(env)
    p = subprocess.run(cmd, cwd=cwd, shell=isinstance(cmd, str), stdout=subprocess.PIPE,
                       stderr=subprocess.STDOUT, text=True, timeout=timeout, env=e, errors="replace")
    return p.returncode, p.stdout

def confirm(wt, sid):
    mdir = os.path.join(wt, "MUTATION")
    meta = json.load(open(os.path.join(mdir, "meta.json")))
    prop = meta["property"]
    demo = glob.glob(os.path.join(mdir, "demo_*"))[0]
    demo_name = os.path.basename(demo)
    env = {"CARGO_TARGET_DIR": os.path.join(wt, "target")}
    ran = []
    rc, out = sh("git status --porcelain -- src", cwd=wt)
    assert out.strip() == "", "worktree src not clean: " + out
    feats = "--features serde,rayon"
    is_test = demo_name.endswith(".rs")
    shutil.copy(demo, os.path.join(wt, "tests", demo_name))
    tname = demo_name[:-3]
    # without the change: demo passes
    rc0, out0 = sh("cargo test --offline %s --test %s 2>&1 | tail -15" % (feats, tname), cwd=wt, env=env)
    ok_without = "test result: ok" in out0 and "0 failed" in out0 and " 0 passed" not in out0
    ran.append({"cmd": "cargo test --offline %s --test %s (without change)" % (feats, tname), "passed": ok_without})
    rc, out = sh("git apply MUTATION/patch.diff", cwd=wt)
    assert rc == 0, out
    os.rename(os.path.join(wt, "tests", demo_name), os.path.join(wt, demo_name + ".aside"))
    rc1, out1 = sh("cargo test --workspace --no-fail-fast --offline 2>&1 | grep -E '^test result|FAILED|^error' ", cwd=wt, env=env)
    suite_ok = "FAILED" not in out1 and "error" not in out1 and "test result: ok" in out1
    ran.append({"cmd": "cargo test --workspace --no-fail-fast --offline (with change, existing suite)", "passed": suite_ok, "out": out1.strip().splitlines()[:4]})
    rc3, out3 = sh("cargo build --offline --all-features 2>&1 | tail -2", cwd=wt, env=env)
    ran.append({"cmd": "cargo build --offline --all-features (with change)", "passed": "Finished" in out3})
    os.rename(os.path.join(wt, demo_name + ".aside"), os.path.join(wt, "tests", demo_name))
    rc2, out2 = sh("cargo test --offline %s --test %s 2>&1 | tail -25" % (feats, tname), cwd=wt, env=env)
    fails_with = "FAILED" in out2 or "failed" in out2 and "test result: ok" not in out2
    ran.append({"cmd": "cargo test --offline %s --test %s (with change)" % (feats, tname), "failed_as_expected": fails_with})
    sh("git checkout -- src", cwd=wt)
    good = ok_without and suite_ok and fails_with and "Finished" in out3
    print(json.dumps(ran, indent=1))
    if not good:
        print("NOT CONFIRMED")
        print(out0[-1500:], out1[-1500:], out2[-1500:])
        return 1
    d = os.path.join(V, "seeded", sid)
    os.makedirs(d, exist_ok=True)
    shutil.copy(os.path.join(mdir, "patch.diff"), os.path.join(d, "patch.diff"))
    shutil.copy(demo, os.path.join(d, demo_name))
    meta2 = {"id": sid, "property": prop, "summary": meta.get("summary"), "needs": meta.get("needs"),
             "demo": demo_name, "demo_cmd": "cargo test --offline %s --test %s" % (feats, tname),
             "agent_ran": meta.get("ran"), "confirmed": ran, "detected_by": {}}
    json.dump(meta2, open(os.path.join(d, "meta.json"), "w"), indent=1)
    print("CONFIRMED -> " + d)
    return 0

def run(sid, prop, tier="quick"):
    d = os.path.join(V, "seeded", sid)
    rc, out = sh("git status --porcelain", cwd="/repo")
    assert out.strip() == "", "/repo not clean: " + out
    rc, out = sh(["git", "-C", "/repo", "apply", os.path.join(d, "patch.diff")])
    assert rc == 0, out
    t = time.time()
    # the evidence file belongs to the unchanged tree: keep it
    evp = os.path.join(V, "evidence", prop + ".json")
    saved = open(evp).read() if os.path.exists(evp) else None
    try:
        rc, out = sh([os.path.join(V, "check"), prop, tier], cwd=V, timeout=7200)
    finally:
        sh("git -C /repo checkout -- .")
        if saved is not None:
            open(evp, "w").write(saved)
    lines = [l for l in out.splitlines() if l.startswith(("VIOLATION", "OK ", "KNOWN", "TOOL-ERROR", "  "))]
    print("\n".join(lines[:12]))
    print("exit=%d wall=%.0fs" % (rc, time.time() - t))
    mp = os.path.join(d, "meta.json")
    meta = json.load(open(mp))
    meta.setdefault("detected_by", {})["%s/%s" % (prop, tier)] = {"exit": rc, "first": lines[:3]}
    json.dump(meta, open(mp, "w"), indent=1)
    return 0

if __name__ == "__main__":
    if sys.argv[1] == "confirm":
        sys.exit(confirm(sys.argv[2], sys.argv[3]))
    elif sys.argv[1] == "run":
        sys.exit(run(*sys.argv[2:]))
