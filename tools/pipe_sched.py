"""Schedule pipeline (C07, C08, C12): generated schedule family compiled into 16 bins, executed
under the deterministic fork/join shim for every admissible order and under real rayon pools,
every run validated by TLC against spec/TraceSchedule.tla; the run-time staging model
(spec/Schedule.tla) is model-checked by TLC."""
import re, sys, collections, json, os, shutil, time, subprocess
from vlib import *

def bins_for(tier):
    tag = tier[0]
    return ["sched_%s%02d" % (tag, i) for i in range(16 if tier == "quick" else 96)]

def ensure_sources(tier):
    # the generator only rewrites files whose content changes, so this is cheap and keeps the bins
    # of a tier in step with the alphabet
    sh(["python3", "tools/gen_sched.py", tier, "src"], cwd=HARNESS)

def headers(trace):
    """line number -> header dict for every run of a schedule trace, plus simple statistics."""
    hs = {}
    st = collections.Counter()
    sample = None
    cur = None
    with open(trace) as f:
        for i, line in enumerate(f, 1):
            if line.startswith('{"archs"') or '"ev":"sched"' in line[:4000] and '"tasks"' in line:
                e = json.loads(line)
                if e.get("ev") == "sched":
                    hs[i] = {k: e[k] for k in ("case", "names", "preset", "mode", "pool", "choices", "archs")}
                    cur = i
                    st["runs"] += 1
                    st["runs:" + e["mode"]] += 1
                    st["case:" + e["case"]] += 0
                    if sample is None and len(e["names"]) == 3:
                        sample = {"header": hs[i], "events": []}
                    elif sample is not None and "done" not in sample:
                        sample["done"] = True
                    continue
            st["events"] += 1
            if sample is not None and "done" not in sample and len(sample["events"]) < 30:
                try:
                    ev = json.loads(line)
                    sample["events"].append({k: ev[k] for k in ("ev", "n", "t") if k in ev} if ev.get("ev") != "end" else {"ev": "end", "final": ev["final"], "seq": ev["seq"]})
                except Exception:
                    pass
    if sample:
        sample.pop("done", None)
    return hs, st, sample

def run_sched(tier, seed, replay=None):
    key = content_key()
    name = "sched-%s" % tier
    if replay:
        name = "sched-replay-" + hashlib_name(replay)
    r = cache_get(name, key)
    if r:
        log("[sched] using cached result")
        return r
    t0 = time.time()
    ensure_sources(tier)
    d = os.path.join(WORK, "cache", key, name + ".d")
    shutil.rmtree(d, ignore_errors=True)
    os.makedirs(d)
    jobs = []
    if replay:
        rp = json.load(open(replay))
        ensure_sources(rp.get("tier", tier))
        build_harness([rp["bin"]])
        jobs.append((rp["bin"], [rp["case"]] + ([str(rp["preset"])] if rp.get("preset") is not None else [])) + (("rf",) if rp.get("rf") else ()))
    else:
        build_harness(bins_for(tier))
        jobs = [(b, []) for b in bins_for(tier)]
        # a second, short pass per bin in a fresh process: the real pools first (1 thread first),
        # on the first independent pair of the bin ("rf" = rayon first)
        sys.path.insert(0, os.path.join(HARNESS, "tools"))
        import gen_sched
        ks = gen_sched.kinds()
        for b in bins_for(tier)[:16]:
            src = open(os.path.join(HARNESS, "src", "bin", b + ".rs")).read()
            for m in re.finditer(r'sched_case!\(out, "(p\d+)", presets, pools, \d+; [SP]\(K(\d+)\), [SP]\(K(\d+)\)\);', src):
                if not gen_sched.conflict(ks[int(m.group(2))], ks[int(m.group(3))]):
                    jobs.append((b, [m.group(1)], "rf"))
                    break

    def one(job):
        b, extra = job[0], job[1]
        rf = len(job) > 2
        out = os.path.join(d, b + ("-rf" if rf else "") + ".ndjson")
        hang = False
        try:
            p = sh([bin_path(b), out] + extra, timeout=600, check=False, env={"VERIF_SCHED_FIRST": "1"} if rf else None)
            rc = p.returncode
        except subprocess.TimeoutExpired:
            rc, hang = -999, True
        crashed = rc != 0
        last = None
        if crashed:
            # keep complete runs only; the incomplete last run is reported by the wrapper
            keep, buf = [], []
            for l in open(out, errors="replace"):
                if not l.endswith("\n"):
                    break
                buf.append(l)
                if '"ev":"end"' in l[:12]:
                    keep += buf
                    buf = []
            for l in buf:
                if '"ev":"sched"' in l:
                    last = json.loads(l)
            open(out, "w").writelines(keep)
        res = tlc_trace("TraceSchedule.tla", "TraceSchedule.cfg", out, out + ".meta") if os.path.getsize(out) > 0 else {"fails": [], "consumed": 0}
        hs, st, sample = headers(out)
        fails = []
        seen = set()
        for (prop, line, nm, cur) in res["fails"]:
            h = hs.get(int(cur) if str(cur).isdigit() else -1, {})
            sig = (prop, nm, h.get("case"), h.get("preset"))
            if sig in seen:
                continue
            seen.add(sig)
            fails.append({"prop": prop, "name": nm + (" (real pools first, 1 thread first, in a fresh process)" if rf else ""), "line": line, "bin": b, "hdr": h, "trace": out, "rf": rf})
        if crashed:
            which = "did not terminate (watchdog 600 s)" if hang else "process crashed rc=%s" % rc
            # which case was it?  The bin buffers its output, so the header of the run in progress is
            # usually lost: run the cases of the bin one by one until one of them fails the same way
            hdr = {"case": (last or {}).get("case", "?"), "names": (last or {}).get("names", []),
                   "preset": (last or {}).get("preset"), "mode": (last or {}).get("mode"), "choices": (last or {}).get("choices")}
            uses_res = any(v != "none" for t in (last or {}).get("tasks", []) for v in t.get("res", {}).values())
            if last is None and not hang:
                src = open(os.path.join(HARNESS, "src", "bin", b + ".rs")).read()
                sys.path.insert(0, os.path.join(HARNESS, "tools"))
                import gen_sched
                ks = gen_sched.kinds()
                for m in re.finditer(r'sched_case!\(out, "(\w+)", presets, pools, \d+; ([^)]*\)(?:, [SP]\(K\d+\))*)\);', src):
                    case, items = m.group(1), re.findall(r'K(\d+)', m.group(2))
                    try:
                        q = sh([bin_path(b), out + ".probe", case], timeout=300, check=False)
                        bad = q.returncode != 0
                    except subprocess.TimeoutExpired:
                        bad = True
                    if bad:
                        hdr = {"case": case, "names": ["K%s" % i for i in items], "preset": None, "mode": None, "choices": None}
                        uses_res = any(ks[int(i)]["res"] for i in items)
                        break
                try:
                    os.remove(out + ".probe")
                except OSError:
                    pass
            props = ("C12",) if hang else (("C07", "C08", "C12") + (("C15",) if uses_res else ()))
            for prop in props:
                fails.append({"prop": prop, "name": "run_schedule " + which, "line": 0, "bin": b,
                              "hdr": hdr, "trace": out, "crash": True})
        return {"bin": b, "trace": out, "fails": fails, "stats": st, "sample": sample}

    results = parallel(one, jobs)
    stats = collections.Counter()
    fails, samples = [], []
    for r in results:
        stats.update(r["stats"])
        if r["sample"] and len(samples) < 2:
            samples.append(r["sample"])
        for f in r["fails"]:
            h = f["hdr"]
            rp = os.path.join(WORK, "replay", "%s-%s-%s-p%s.json" % (f["prop"], f["bin"], h.get("case"), h.get("preset")))
            os.makedirs(os.path.dirname(rp), exist_ok=True)
            json.dump({"bin": f["bin"], "case": h.get("case"), "preset": h.get("preset"), "tier": tier,
                       "names": h.get("names"), "mode": h.get("mode"), "choices": h.get("choices"), "rf": bool(f.get("rf")),
                       "check": f["name"]}, open(rp, "w"))
            f["replay"] = rp
            fails.append(f)
    cases = len([k for k in stats if k.startswith("case:")])
    out = {"tier": tier, "fails": fails, "runs": stats.get("runs", 0), "det_runs": stats.get("runs:det", 0),
           "rayon_runs": stats.get("runs:rayon", 0), "events": stats.get("events", 0), "cases": cases,
           "traces": len(results), "samples": samples, "wall": time.time() - t0}
    failing = {f["trace"] for f in fails}
    for r in results:
        if r["trace"] not in failing:
            try:
                os.remove(r["trace"])
            except OSError:
                pass
    cache_put(name, key, out)
    return out

def hashlib_name(path):
    import hashlib
    return hashlib.sha256(open(path, "rb").read()).hexdigest()[:12]
