"""Per-property check drivers."""
import json, os, sys, time
from vlib import *
import pipe_world

# ------------------------------------------------------------------------------------------------
# model checking of the store model (MCWorld)
MC_WORLD = {
    "quick": [("MCWorld1q.cfg", "1 world, 2 components, <=3 value creations, batches 0..2")],
    "thorough": [("MCWorld1.cfg", "1 world, 2 components, <=4 value creations, batches 0..2"),
                 ("MCWorld2.cfg", "2 worlds (clone / clone_from / serde between them), 2 components, <=2 value creations, batches 0..2")],
}
MC_INV = {"C01": "Inv_C01", "C02": "Inv_C02", "C13": "Inv_C13", "C06": "Inv_C06", "C10": "Inv_C01"}

def run_mc_world(tier):
    key = content_key()
    name = "mcworld-" + tier
    r = cache_get(name, key)
    if r:
        return r
    out = []
    for cfg, desc in MC_WORLD[tier]:
        res = tlc_mc("MCWorld.tla", cfg, os.path.join(WORK, "mc", cfg + ".meta"), workers=8,
                     timeout=3000)
        logp = os.path.join(WORK, "cache", key, "mc-" + cfg + ".log")
        os.makedirs(os.path.dirname(logp), exist_ok=True)
        open(logp, "w").write(res["out"])
        out.append({"cfg": cfg, "desc": desc, "ok": res["ok"], "generated": res["generated"],
                    "distinct": res["distinct"], "violated": res["violated"], "log": logp,
                    "wall": res["wall"]})
    cache_put(name, key, out)
    return out

WORLD_NOTES = {
    "C01": ("model_checking", "reference-map refinement: MCWorld Inv_C01 exhaustively on the store model + every event of every trace checked by TLC against the abstract effect of the operation (TraceWorld C01 checks)"),
    "C02": ("model_checking", "identifier discipline: MCWorld Inv_C02 + probes of every identifier ever issued (and forged ones) after every event"),
    "C04": ("exploration", "value ledger: every construction/clone/deserialization/drop of every individually identified value checked by TLC against the set of values reachable in the observed worlds after every event, and emptiness after dropping all worlds"),
    "C06": ("model_checking", "MCWorld Inv_C06 (every reachable store is accepted by deserialization; round trip preserves the map) + real round trips in 3 encodings with equality, content and lock-step twin checks"),
    "C10": ("model_checking", "MCWorld (2-world instance: Clone/CloneFrom preserve StoreInv and the map) + real clone/clone_from with content, token-freshness, frame and lock-step checks"),
    "C13": ("model_checking", "MCWorld Inv_C13 exhaustively + StoreInv evaluated by TLC on the hook's dump of every live world after every event"),
    "C15": ("exploration", "resource addressing: get_mut / view_resources / query resource views in 14 subset-order-mutability variants, plus frame checks on every entity operation, clone and serde"),
    "C16": ("exploration", "== logged for every ordered pair of live worlds after every event; TLC checks reflexivity, symmetry, eq => same content, and eq after clone / serde"),
}

def relevant(prop, st):
    g = lambda k: st.get(k, 0)
    if prop == "C01":
        return g("events")
    if prop == "C02":
        return g("dead-id-probes") + g("dead-target-ops")
    if prop == "C04":
        return g("ledger-events")
    if prop == "C06":
        return g("op:serde")
    if prop == "C10":
        return g("op:clone") + g("op:clone_from")
    if prop == "C13":
        return g("world-observations")
    if prop == "C15":
        return g("op:getmut") + g("op:viewres")
    if prop == "C16":
        return g("eq-true-pairs")
    return g("events")

def known_split(prop, fails):
    """Split trace failures into (violations, known_hits) using known_findings.json."""
    kn = [k for k in load_known().get("known", []) if k["property"] == prop]
    viol, hits = [], []
    for f in fails:
        sig = "%s@%s" % (f["name"], f["op"])
        k = next((k for k in kn if k["signature"] == sig), None)
        if k:
            if k["what"] not in hits:
                hits.append(k["what"])
        else:
            viol.append(f)
    return viol, hits

def run_world_prop(prop, tier, seed, replay):
    t0 = time.time()
    if replay:
        res = pipe_world.run_world(tier, seed, scripts_only=replay)
        mc = []
    else:
        mc = run_mc_world(tier) if prop in MC_INV else []
        res = pipe_world.run_world(tier, seed)
    harness = [f for f in res["fails"] if f["prop"] == "HARNESS"]
    if harness:
        raise ToolError("harness/spec disagreement (not a verdict): %s" % harness[:3])
    fails = [f for f in res["fails"] if f["prop"] == prop]
    viol, hits = known_split(prop, fails)
    violations = [{"what": "%s (line %d of %s, op %s)" % (f["name"], f["line"], f["trace"], f["op"]),
                   "replay": f["replay"]} for f in viol]
    for m in mc:
        if not m["ok"] and (m["violated"] in (MC_INV.get(prop), None)):
            violations.append({"what": "model: %s violated in %s (%s)" % (m["violated"], m["cfg"], m["desc"]),
                               "replay": m["log"]})
    level, text = WORLD_NOTES[prop]
    st = res["stats"]
    cov = {
        "evaluations": st.get("events", 0),
        "distinct_nontrivial": res["distinct"],
        "rule": "events = public calls executed on real Worlds (seeded random histories over a 5-component registry with all 326 written component orders, <=3 live worlds, plus scripted regressions), each validated by TLC; distinct = distinct (operation, argument shape, pre-state component-set profile of all worlds) combinations; relevant_events counts the events that exercise this property specifically",
        "relevant_events": relevant(prop, st),
        "traces_validated_against_impl": res["traces"],
        "samples": res["samples"][:2] or [{"note": "no sample"}],
        "op_counts": {k[3:]: v for k, v in st.items() if k.startswith("op:")},
        "stats": {k: v for k, v in st.items() if not k.startswith("op:")},
        "trace_failures_for_property": len(fails),
        "exhaustive": False,
    }
    if mc:
        cov["states"] = sum(m["distinct"] for m in mc)
        cov["transitions"] = sum(m["generated"] for m in mc)
        cov["model_instances"] = [{k: m[k] for k in ("cfg", "desc", "distinct", "generated", "ok")} for m in mc]
        cov["model_invariant"] = MC_INV[prop]
    assumptions = [
        "the harness executes and logs faithfully (worlddrv); the brood_verif dump hook is read-only",
        "bounded: histories of the stated length, <=3 live worlds, <=~12 live entities per world",
        "the strict store model is tied to the code by the drift check in TraceWorld, the verdict comes from the policy-free relations",
    ]
    finish(prop, tier, seed, level if not replay else level, cov, violations, t0, assumptions, hits)

def run(prop, tier, seed, replay):
    if prop in WORLD_NOTES:
        return run_world_prop(prop, tier, seed, replay)
    raise ToolError("no check registered for " + prop)
