"""Per-property check drivers."""
import json, os, sys, time
from vlib import *
import pipe_world

# ------------------------------------------------------------------------------------------------
# model checking of the store model (MCWorld)
MC_WORLD = {
    "quick": [("MCWorld1q.cfg", "1 world, 2 components, <=3 value creations, batches 0..2"),
              ("MCWorld2q.cfg", "2 worlds (clone / clone_from / serde between them), 2 components, <=1 value creation, batches 0..1")],
    "thorough": [("MCWorld1.cfg", "1 world, 2 components, <=4 value creations, batches 0..2"),
                 ("MCWorld3c.cfg", "1 world, 3 components, <=3 value creations, batches 0..2"),
                 ("MCWorld2.cfg", "2 worlds (clone / clone_from / serde between them), 2 components, <=2 value creations, batches 0..2")],
}
MC_PAR = [("ParSplit.cfg", "split algebra of the zipped column producers (slice_mut, RepeatNone, slice) over 5 rows, every split tree"),
          ("ParSplitBug.cfg", "SELF-TEST: RepeatNone.split_at with the wrong right-hand count must lose a row")]
MC_INV = {"C16": "Inv_C16", "C01": "Inv_C01", "C02": "Inv_C02", "C13": "Inv_C13", "C06": "Inv_C06", "C10": "Inv_C01"}

def run_mc_world(tier):
    key = content_key()
    name = "mcworld-" + tier
    r = cache_get(name, key)
    if r:
        return r
    out = []
    for cfg, desc in MC_WORLD[tier]:
        res = tlc_mc("MCWorld.tla", cfg, os.path.join(WORK, "mc", cfg + ".meta"), workers=8,
                     timeout=3000)
        logp = os.path.join(WORK, "cache", key, "mc-" + cfg + ".log")
        os.makedirs(os.path.dirname(logp), exist_ok=True)
        open(logp, "w").write(res["out"])
        out.append({"cfg": cfg, "desc": desc, "ok": res["ok"], "generated": res["generated"],
                    "distinct": res["distinct"], "violated": res["violated"], "log": logp,
                    "wall": res["wall"]})
    cache_put(name, key, out)
    return out

WORLD_NOTES = {
    "C01": ("model_checking", "reference-map refinement: MCWorld Inv_C01 exhaustively on the store model + every event of every trace checked by TLC against the abstract effect of the operation (TraceWorld C01 checks)"),
    "C02": ("model_checking", "identifier discipline: MCWorld Inv_C02 + probes of every identifier ever issued (and forged ones) after every event"),
    "C04": ("exploration", "value ledger: every construction/clone/deserialization/drop of every individually identified value checked by TLC against the set of values reachable in the observed worlds after every event, and emptiness after dropping all worlds"),
    "C05": ("other", "allocation protocol recorded by a global-allocator wrapper for every library call and checked by TLC (no free of a dead/unknown block, free/resize layout = allocation layout, no block left when all worlds are dropped), self-checking payloads on every read (type tag + checksum, poisoned quarantine for freed blocks), and process crashes inside safe calls recorded as events"),
    "C06": ("model_checking", "MCWorld Inv_C06 (every reachable store is accepted by deserialization; round trip preserves the map) + real round trips in 3 encodings with equality, content and lock-step twin checks"),
    "C10": ("model_checking", "MCWorld (2-world instance: Clone/CloneFrom preserve StoreInv and the map) + real clone/clone_from with content, token-freshness, frame and lock-step checks"),
    "C11": ("model_checking", "spec/Serde.tla: the deserializer's acceptance checks are sufficient (MCSerde: every accepted mutation of every reachable encoding decodes to a store satisfying StoreInv) and the real deserializer agrees with Accepts / Decode on structured mutations of real encodings; plus valid encodings of reachable worlds (serde_json text, serde_assert token streams human-readable and compact) are mutated structurally (numbers +-1/0/large incl. declared lengths, identifier bytes, entity index/generation, free-list entries, component values; token delete/duplicate/swap; field renames; element delete/duplicate) and deserialized; TLC requires: Err, or a world that passes StoreInv, identifier probes, ledger and heap checks immediately and under the random operations that follow in the same history"),
    "C13": ("model_checking", "MCWorld Inv_C13 exhaustively + StoreInv evaluated by TLC on the hook's dump of every live world after every event"),
    "C15": ("exploration", "resource addressing: get_mut / view_resources / query resource views in 14 subset-order-mutability variants, plus frame checks on every entity operation, clone and serde"),
    "C03": ("exploration", "a generated family of 132 queries (every view kind alone and pairwise, view order, identifier view, nested filters incl. views used as filters, World::entry queries, every super-view/sub-view pairing of query-time Entries, iteration combined with entry views) run against every world state the histories pass through; TLC evaluates the query on the reference map and compares result set/multiset, per-item values and tokens, Option-ness, writes, and size_hint brackets"),
    "C09": ("model_checking", "spec/ParSplit.tla (every split tree of the zipped column producers yields every row exactly once; the wrong RepeatNone split is a checked self-test) + par_query over the parallel part of the query family on worlds with many/empty/short/long tables (up to ~80 rows) under rayon pools of 1,2,3,4,8,16 threads; TLC compares the multiset of results with the reference map's answer, the writes with the sequential semantics, and requires the addresses of mutably yielded values to be pairwise distinct"),
    "C16": ("model_checking", "MCWorld Inv_C16 on the 2-world instances (the strict StoreEq is reflexive, symmetric and implies the same reference map) and the real == compared with StoreEq on the observed stores (drift check) + == logged for every ordered pair of live worlds after every event; TLC checks reflexivity, symmetry, eq => same content, and eq after clone / serde"),
}

def relevant(prop, st):
    g = lambda k: st.get(k, 0)
    if prop == "C01":
        return g("events")
    if prop == "C02":
        return g("dead-id-probes") + g("dead-target-ops")
    if prop == "C04":
        return g("ledger-events")
    if prop == "C06":
        return g("op:serde") + g("regn-cases")
    if prop == "C10":
        return g("op:clone") + g("op:clone_from")
    if prop == "C13":
        return g("world-observations")
    if prop == "C15":
        return g("op:getmut") + g("op:viewres")
    if prop == "C16":
        return g("eq-true-pairs")
    if prop == "C03":
        return g("op:query") + g("op:qmut")
    if prop == "C09":
        return g("query:par")
    if prop == "C05":
        return g("heap-events")
    if prop == "C11":
        return g("untrusted-inputs")
    return g("events")

def known_split(prop, fails):
    """Split trace failures into (violations, known_hits) using known_findings.json."""
    kn = [k for k in load_known().get("known", []) if k["property"] == prop]
    viol, hits = [], []
    for f in fails:
        sig = "%s@%s" % (f["name"], f["op"])
        k = next((k for k in kn if k["signature"] == sig), None)
        if k:
            if k["what"] not in hits:
                hits.append(k["what"])
        else:
            viol.append(f)
    return viol, hits

def run_reshape():
    """spec/Reshape.tla: the row move of Entry::add / Entry::remove with the drop of the removed component
    placed nowhere (pinned tree), in the middle of the move (first repair) or last (a8b823c)."""
    key = content_key()
    r = cache_get("reshape", key)
    if not r:
        r = {}
        for d in ("last", "mid", "none"):
            x = tlc_mc("Reshape.tla", "Reshape_%s.cfg" % d, os.path.join(WORK, "mc", "reshape-%s.meta" % d), workers=2, timeout=600)
            r[d] = {"ok": x["ok"], "violated": x["violated"], "distinct": x["distinct"], "generated": x["generated"]}
        cache_put("reshape", key, r)
    if r["mid"]["ok"] or r["mid"]["violated"] != "Consistent":
        raise ToolError("self-test failed: dropping the removed component in the middle of the row move does not violate Consistent")
    if r["none"]["ok"] or r["none"]["violated"] != "ExactlyOnce":
        raise ToolError("self-test failed: never dropping the removed component does not violate ExactlyOnce")
    return r

def run_ledger(tier="quick"):
    """spec/Ledger.tla: drop ledger of the table operations that keep an entity's shape (push, swap_remove
    per column with the shared length, clear, clone / clone_from, drop), with two self-test designs."""
    key = content_key()
    cfgs = [("ok", "Ledger.cfg"), ("stale", "Ledger_stale.cfg"), ("overwrite", "Ledger_overwrite.cfg")]
    if tier == "thorough":
        cfgs += [("t3", "Ledger_t3.cfg"), ("t4", "Ledger_t4.cfg")]
    r = cache_get("ledger-" + tier, key)
    if not r:
        r = {}
        for d, cfg in cfgs:
            x = tlc_mc("Ledger.tla", cfg, os.path.join(WORK, "mc", "ledger-%s.meta" % d), workers=12 if d == "t4" else 4, timeout=1800)
            r[d] = {"ok": x["ok"], "violated": x["violated"], "distinct": x["distinct"], "generated": x["generated"]}
        cache_put("ledger-" + tier, key, r)
    for d, why in (("stale", "decrementing the shared length inside the per-column swap_remove loop"),
                   ("overwrite", "clone_from that overwrites cells without dropping them")):
        if r[d]["ok"]:
            raise ToolError("self-test failed: Ledger.tla accepts " + why)
    return r

def run_world_prop(prop, tier, seed, replay):
    t0 = time.time()
    sched_replay = None
    if replay:
        try:
            if "bin" in json.load(open(replay)):
                sched_replay = replay        # a schedule run (C15 under scheduling)
        except Exception:
            pass
    if sched_replay:
        res = {"fails": [], "stats": {"events": 0}, "distinct": 0, "traces": 0, "samples": [], "drift": []}
        mc = []
    elif replay:
        res = pipe_world.run_world(tier, seed, scripts_only=replay)
        mc = []
    else:
        mc = run_mc_world(tier) if prop in MC_INV else []
        if prop in ("C11", "C06"):
            key = content_key()
            extra = cache_get("mcserde-" + tier, key) or []
            if not extra:
                cfgs = [("MCSerdePairs.cfg", "Serde.tla on every reachable store (1 world, <=2 creations): encoding accepted and decoded to the same store; every accepted single mutation and every accepted coordinated pair of mutations decodes to a store satisfying StoreInv")]
                if tier == "thorough":
                    cfgs.append(("MCSerde.cfg", "same, single mutations, <=3 creations (20 691 stores)"))
                cfgs.append(("MCRegN.cfg", "RegN.tla for every registry size 1..17: the wire form of every valid archetype identifier is accepted, every padding bit is refused, the wire form is injective"))
                for cfg, desc in cfgs:
                    r = tlc_mc("MCRegN.tla" if cfg.startswith("MCRegN") else "MCSerde.tla", cfg, os.path.join(WORK, "mc", cfg + ".meta"), workers=8, timeout=3000)
                    extra.append({"cfg": cfg, "desc": desc, "ok": r["ok"], "generated": r["generated"], "distinct": r["distinct"],
                                  "violated": r["violated"], "log": "-", "wall": r["wall"]})
                cache_put("mcserde-" + tier, key, extra)
            mc = (mc or []) + extra
        if prop == "C05":
            key = content_key()
            mc = cache_get("mcheap", key) or []
            if not mc:
                for cfg, desc in (("Heap.cfg", "life cycle of a type-erased column (raw parts written back after growth, shrink, batch adoption, free): the recorded parts always name the one live block"),
                                  ("HeapBug.cfg", "SELF-TEST: adopting a caller's Vec while the column still owns a buffer must violate NoLeak")):
                    r = tlc_mc("Heap.tla", cfg, os.path.join(WORK, "mc", cfg + ".meta"), workers=2, timeout=600)
                    mc.append({"cfg": cfg, "desc": desc, "ok": r["ok"], "generated": r["generated"], "distinct": r["distinct"],
                               "violated": r["violated"], "log": "-", "wall": r["wall"]})
                cache_put("mcheap", key, mc)
            bug = [m for m in mc if m["cfg"] == "HeapBug.cfg"][0]
            if bug["ok"] or bug["violated"] != "NoLeak":
                raise ToolError("self-test failed: the unguarded batch adoption does not violate NoLeak")
            mc = [m for m in mc if m["cfg"] != "HeapBug.cfg"]
        if prop == "C04":
            r = run_reshape()
            mc = [{"cfg": "Reshape_last.cfg", "desc": "row move of Entry::add / Entry::remove through the packed buffer, every instance over 3 components, <=3 + <=2 rows, every moved row: the removed value is dropped exactly once and nothing else is (self-tests: the pinned design violates ExactlyOnce, the drop-in-the-middle design violates Consistent)",
                   "ok": r["last"]["ok"], "generated": r["last"]["generated"], "distinct": r["last"]["distinct"],
                   "violated": r["last"]["violated"], "log": "-", "wall": 0}]
            lg = run_ledger(tier)
            for d, desc in (("t3", "Ledger.tla with 3 columns x <=3 rows, 24 value identities"), ("t4", "Ledger.tla with 2 columns x <=4 rows, 24 value identities")):
                if d in lg:
                    mc.append({"cfg": "Ledger_%s.cfg" % d, "desc": desc, "ok": lg[d]["ok"], "generated": lg[d]["generated"],
                               "distinct": lg[d]["distinct"], "violated": lg[d]["violated"], "log": "-", "wall": 0})
            mc.append({"cfg": "Ledger.cfg", "desc": "drop ledger of the shape-preserving table operations (push, per-column swap_remove under the shared length, clear, clone / clone_from, drop) on 2 tables x 2 columns x <=3 rows, 20 value identities: ExactlyOnce / NoLeak / NoDangling / NoAlias (self-tests: a length decremented inside the column loop and a clone_from that overwrites without dropping must each violate an invariant)",
                       "ok": lg["ok"]["ok"], "generated": lg["ok"]["generated"], "distinct": lg["ok"]["distinct"],
                       "violated": lg["ok"]["violated"], "log": "-", "wall": 0})
        if prop == "C09":
            key = content_key()
            mc = cache_get("mcpar", key) or []
            if not mc:
                for cfg, desc in MC_PAR:
                    r = tlc_mc("MCParSplit.tla", cfg, os.path.join(WORK, "mc", cfg + ".meta"), workers=4, timeout=900)
                    mc.append({"cfg": cfg, "desc": desc, "ok": r["ok"], "generated": r["generated"], "distinct": r["distinct"],
                               "violated": r["violated"], "log": "-", "wall": r["wall"]})
                cache_put("mcpar", key, mc)
            bug = [m for m in mc if m["cfg"] == "ParSplitBug.cfg"][0]
            if bug["ok"] or bug["violated"] != "EveryRowOnce":
                raise ToolError("self-test failed: the buggy RepeatNone split does not violate EveryRowOnce")
            mc = [m for m in mc if m["cfg"] != "ParSplitBug.cfg"]
        res = pipe_world.run_world(tier, seed)
    harness = [f for f in res["fails"] if f["prop"] == "HARNESS"]
    if harness:
        raise ToolError("harness/spec disagreement (not a verdict): %s" % harness[:3])
    for dmsg in res.get("drift", [])[:3]:
        print("SPEC-DRIFT: the strict store model (spec/WorldStore.tla) no longer predicts the store the code produces: " + dmsg)
    fails = [f for f in res["fails"] if f["prop"] == prop]
    if prop == "C15" and (sched_replay or not replay):
        # resources under scheduling: final resource state of every schedule run vs the sequential run
        sres = pipe_sched.run_sched(tier, seed, replay=sched_replay)
        for f in sres["fails"]:
            if f["prop"] == "C15":
                h = f["hdr"]
                fails.append({"prop": "C15", "line": f["line"], "name": f["name"], "op": "run_schedule %s preset %s" % (h.get("names"), h.get("preset")),
                              "trace": f["trace"], "replay": f["replay"]})
    if prop == "C03":
        # a parallel query is a query: its result set / values are compared with the model's matching
        # set (not with the sequential run), so a wrong parallel result also contradicts C03
        fails += [f for f in res["fails"] if f["prop"] == "C09" and f["op"] == "query"
                  and f["name"] in ("result-count", "result-identifiers", "result-values", "result-multiset",
                                    "writes-through-views", "corrupt-value-in-result")]
    if prop == "C11":
        # a world handed back from untrusted input must keep satisfying every other property
        fails += [f for f in res["fails"] if f.get("profile", "").startswith("untrusted") and f["prop"] not in ("C11", "INFO", "HARNESS")]
    viol, hits = known_split(prop, fails)
    violations = [{"what": "%s (line %d of %s, op %s)" % (f["name"], f["line"], f["trace"], f["op"]),
                   "replay": f["replay"]} for f in viol]
    for m in mc:
        if not m["ok"] and (m["violated"] in (MC_INV.get(prop), None) or prop in ("C09", "C05", "C04") or m["cfg"].startswith(("MCSerde", "MCRegN"))):
            violations.append({"what": "model: %s violated in %s (%s)" % (m["violated"], m["cfg"], m["desc"]),
                               "replay": m["log"]})
    level, text = WORLD_NOTES[prop]
    st = res["stats"]
    if not replay and not violations and relevant(prop, st) == 0:
        raise ToolError("vacuous run: no event exercised %s (the drivers produced nothing relevant)" % prop)
    cov = {
        "evaluations": st.get("events", 0),
        "distinct_nontrivial": res["distinct"],
        "rule": "events = public calls executed on real Worlds (seeded random histories over a 5-component registry with all 326 written component orders, <=3 live worlds, plus scripted regressions), each validated by TLC; distinct = distinct (operation, argument shape, pre-state component-set profile of all worlds) combinations; relevant_events counts the events that exercise this property specifically",
        "relevant_events": relevant(prop, st),
        "traces_validated_against_impl": res["traces"],
        "samples": res["samples"][:2] or [{"note": "no sample"}],
        "op_counts": {k[3:]: v for k, v in st.items() if k.startswith("op:")},
        "stats": {k: v for k, v in st.items() if not k.startswith("op:")},
        "trace_failures_for_property": len(fails),
        "strict_model_drift_events": st.get("strict-model-drift", 0),
        "exhaustive": False,
    }
    if level == "other":
        cov["explanation"] = text + ". NOT decided: an out-of-bounds access that stays inside live, unpoisoned memory and is not a component read (see DESIGN section 10)."
    if mc:
        cov["states"] = sum(m["distinct"] for m in mc)
        cov["transitions"] = sum(m["generated"] for m in mc)
        cov["model_instances"] = [{k: m[k] for k in ("cfg", "desc", "distinct", "generated", "ok")} for m in mc]
        cov["model_invariant"] = {"C09": "EveryRowOnce / NeverTwice / SlicesAgree", "C11": "Inv_C11 / Inv_C11_Pairs / Inv_RoundTrip (MCSerde)",
                                  "C06": "Inv_C06 (MCWorld) + Inv_RoundTrip (MCSerde)", "C05": "Recorded / NoLeak / LenFits (Heap.tla)", "C04": "ExactlyOnce / Consistent / Moved (Reshape.tla); ExactlyOnce / NoLeak / NoDangling / NoAlias (Ledger.tla)"}.get(prop, MC_INV.get(prop))
    assumptions = [
        "the harness executes and logs faithfully (worlddrv); the brood_verif dump hook is read-only",
        "bounded: histories of the stated length, <=3 live worlds, <=~12 live entities per world",
        "the strict store model is tied to the code by the drift check in TraceWorld, the verdict comes from the policy-free relations",
    ]
    finish(prop, tier, seed, level, cov, violations, t0, assumptions, hits, write=not replay)

# ------------------------------------------------------------------------------------------------
import pipe_sched
MC_SCHED = {
    "quick": [("MCSchedule.cfg", "all schedules of <=3 tasks over 11 task kinds (view kinds, filters, optional views, resources, entry views) x 8 world contents, every execution order")],
    "thorough": [("MCSchedule.cfg", "all schedules of <=3 tasks over 11 task kinds (view kinds, filters, optional views, resources, entry views) x 8 world contents, every execution order"),
                 ("MCSchedule4.cfg", "all schedules of <=4 tasks over 7 task kinds x 4 world contents, every execution order"),
                 ("MCScheduleDup.cfg", "SELF-TEST: the pre-fix duplicate-key behaviour must violate NoConflictingOverlap")],
}
SCHED_INV = {"C07": ["ExactlyOnce", "SeqEquivalent"], "C08": ["NoConflictingOverlap"], "C12": ["GreedyParallel", "Termination"]}
SCHED_TEXT = {
    "C07": "every task exactly once, conflicting tasks in declared order, final world/resources/per-task observations equal to the sequential run",
    "C08": "a task is never forked while a task that can touch the same data of a stored entity (through iterator, resource views or entry views) is forked and not yet joined",
    "C12": "members of one greedy group are forked inside one join region (or started early), and every run reaches the end of run_schedule (watchdog), including 1-thread pools",
}

def run_mc_sched(tier):
    key = content_key()
    name = "mcsched-" + tier
    r = cache_get(name, key)
    if r:
        return r
    out = []
    for cfg, desc in MC_SCHED[tier]:
        res = tlc_mc("MCSchedule.tla", cfg, os.path.join(WORK, "mc", cfg + ".meta"), workers=8, timeout=3000)
        logp = os.path.join(WORK, "cache", key, "mc-" + cfg + ".log")
        os.makedirs(os.path.dirname(logp), exist_ok=True)
        open(logp, "w").write(res["out"])
        out.append({"cfg": cfg, "desc": desc, "ok": res["ok"], "generated": res["generated"],
                    "distinct": res["distinct"], "violated": res["violated"], "log": logp, "wall": res["wall"]})
    cache_put(name, key, out)
    return out

def run_sched_prop(prop, tier, seed, replay):
    t0 = time.time()
    mc = [] if replay else run_mc_sched(tier)
    res = pipe_sched.run_sched(tier, seed, replay)
    harness = [f for f in res["fails"] if f["prop"] == "HARNESS"]
    if harness:
        raise ToolError("harness/spec disagreement (not a verdict): %s" % harness[:3])
    fails = [f for f in res["fails"] if f["prop"] == prop]
    kn = [k for k in load_known().get("known", []) if k["property"] == prop]
    violations, hits = [], []
    for f in fails:
        sig = "%s@%s" % (f["name"], "+".join(f["hdr"].get("names", [])))
        k = next((k for k in kn if k["signature"] == sig), None)
        if k:
            hits.append(k["what"])
            continue
        h = f["hdr"]
        violations.append({"what": "%s: schedule %s (case %s) on world preset %s, mode %s choices %s" %
                           (f["name"], h.get("names"), h.get("case"), h.get("preset"), h.get("mode"), h.get("choices")),
                           "replay": f["replay"]})
    for m in mc:
        selftest = m["cfg"] == "MCScheduleDup.cfg"
        if selftest:
            if m["ok"] or m["violated"] != "NoConflictingOverlap":
                raise ToolError("self-test failed: the pre-fix model did not violate NoConflictingOverlap")
            continue
        if not m["ok"] and (m["violated"] in SCHED_INV[prop] or m["violated"] is None or (prop == "C12" and "emporal" in str(m["violated"]))):
            violations.append({"what": "model: %s violated in %s" % (m["violated"], m["cfg"]), "replay": m["log"]})
    real = [m for m in mc if m["cfg"] != "MCScheduleDup.cfg"]
    cov = {
        "states": sum(m["distinct"] for m in real) or 1,
        "transitions": sum(m["generated"] for m in real) or 1,
        "traces_validated_against_impl": res["runs"],
        "samples": res["samples"][:1] or [{"note": "no sample"}],
        "evaluations": res["runs"],
        "distinct_nontrivial": res["det_runs"],
        "rule": "one evaluation = one execution of run_schedule on a real World; deterministic-shim runs enumerate every admissible execution order of every generated schedule on 7 world presets (distinct by construction: different choice sequences); rayon runs use real pools of 1/2/4/8 threads",
        "schedules": res["cases"], "deterministic_order_runs": res["det_runs"], "rayon_runs": res["rayon_runs"],
        "events": res["events"],
        "model_instances": [{k: m[k] for k in ("cfg", "desc", "distinct", "generated", "ok", "violated")} for m in mc],
        "model_invariants": SCHED_INV[prop],
        "checked": SCHED_TEXT[prop],
        "exhaustive": False,
    }
    assumptions = ["the fork/join shim reports rayon::join faithfully; in deterministic mode it runs closures on one thread",
                   "task bodies are atomic with respect to the conflict relation (checked structurally, not by timing)",
                   "schedule family: %d schedules of 2-4 tasks over 17 task kinds" % res["cases"]]
    finish(prop, tier, seed, "model_checking", cov, violations, t0, assumptions, hits, write=not replay)

# ------------------------------------------------------------------------------------------------
import pipe_fault
def run_fault_prop(prop, tier, seed, replay):
    t0 = time.time()
    only = None
    if replay:
        only = json.load(open(replay))["scenario"]
    res = pipe_fault.run_fault(tier, seed, only)
    # design-level model of the per-column loops (spec/MCPanic.tla): the pinned design must violate
    # PanicSafe (it is the model-level image of the known findings), the guarded design must satisfy it
    key = content_key()
    mcp = cache_get("mcpanic", key)
    if not mcp:
        a = tlc_mc("MCPanic.tla", "MCPanic.cfg", os.path.join(WORK, "mc", "mcpanic.meta"), workers=4, timeout=900)
        a2 = tlc_mc("MCPanic.tla", "MCPanicCloneFrom.cfg", os.path.join(WORK, "mc", "mcpanic2.meta"), workers=2, timeout=900)
        a3 = tlc_mc("MCPanic.tla", "MCPanicCloneFromGrow.cfg", os.path.join(WORK, "mc", "mcpanic3.meta"), workers=2, timeout=900)
        b = tlc_mc("MCPanic.tla", "MCPanicGuarded.cfg", os.path.join(WORK, "mc", "mcpanicg.meta"), workers=4, timeout=900)
        b2 = tlc_mc("MCPanic.tla", "MCPanicGuardedGrow.cfg", os.path.join(WORK, "mc", "mcpanicg2.meta"), workers=4, timeout=900)
        mcp = {"pinned_violates": (not a["ok"]) and a["violated"] == "PanicSafe",
               "pinned_clone_from_violates": (not a2["ok"]) and a2["violated"] == "PanicSafe",
               "pinned_clone_from_growing_uses_freed_buffer": (not a3["ok"]) and a3["violated"] == "NoFreedBufferUsed",
               "guarded_ok": b["ok"] and b2["ok"],
               "guarded_states": b["distinct"] + b2["distinct"], "guarded_transitions": b["generated"] + b2["generated"]}
        cache_put("mcpanic", key, mcp)
    if not mcp["guarded_ok"]:
        raise ToolError("MCPanic: the guarded design does not satisfy PanicSafe (model error)")
    if not (mcp["pinned_violates"] and mcp["pinned_clone_from_violates"] and mcp["pinned_clone_from_growing_uses_freed_buffer"]):
        raise ToolError("MCPanic: the pinned design no longer shows the known findings (self-test): %s" % mcp)
    rs = run_reshape()
    kn = [k for k in load_known().get("known", []) if k["property"] == prop]
    violations, hits = [], []
    for f in res["fails"]:
        sig = "%s/%s" % (f["op"], f["kind"])
        k = next((k for k in kn if k["signature"] == sig), None)
        if k:
            if k["what"] not in hits:
                hits.append(k["what"])
            continue
        violations.append({"what": "%s: operation %s, panic injected in the %s call-back number %s (scenario %s)" %
                           (f["name"], f["op"], f["kind"], f["k"], f.get("i")), "replay": f["replay"]})
    cov = {
        "evaluations": res["scenarios"],
        "distinct_nontrivial": res["scenarios"] - res["nonfiring"],
        "rule": "one scenario = (operation, call-back kind, position k): every k from 1 to the number of call-backs of that kind the operation makes in a fault-free dry run, for 24 operations (remove first/middle/last row, clear, Entry::add overwrite / shape change, Entry::remove, world drop, clone, clone_from into larger / smaller+extra-table / empty destinations, ==, Debug, serialize x2, deserialize x3, run_system, run_schedule, run_par_system, par_query) on a world with 5 multi-column tables; non-trivial = the injected panic actually fired",
        "samples": res["samples"] or [{"note": "no sample"}],
        "callbacks_per_operation": res["ops"],
        "exhaustive": True,
        "failing_signatures": sorted({"%s/%s" % (f["op"], f["kind"]) for f in res["fails"]}),
        "design_model": {"spec": "spec/MCPanic.tla (3 columns x 3 rows, panic at every call-back of remove / clear / clone_from from a source of 2 or 4 rows)",
                         "pinned_design_violates_PanicSafe": mcp["pinned_violates"],
                         "pinned_clone_from_violates_PanicSafe": mcp["pinned_clone_from_violates"],
                         "pinned_clone_from_into_a_full_smaller_table_uses_a_freed_buffer": mcp["pinned_clone_from_growing_uses_freed_buffer"],
                         "guarded_design_satisfies_PanicSafe": mcp["guarded_ok"],
                         "guarded_states": mcp["guarded_states"]},
        "design_model_reshape": {"spec": "spec/Reshape.tla (Entry::add / Entry::remove row move with a panic possible in the Drop of the removed component)",
                                 "drop_last_satisfies_Consistent": rs["last"]["ok"], "states": rs["last"]["distinct"],
                                 "drop_in_the_middle_violates_Consistent": not rs["mid"]["ok"],
                                 "never_dropped_violates_ExactlyOnce": not rs["none"]["ok"]},
    }
    if not rs["last"]["ok"]:
        violations.append({"what": "model: %s violated in Reshape_last.cfg (the row move of Entry::remove as coded)" % rs["last"]["violated"], "replay": "-"})
    finish(prop, tier, seed, "fault_enumeration", cov, violations, t0,
           ["one panic per scenario; the quarantining allocator turns double frees and stale reads into data instead of crashes",
            "leaks after a panic are accepted (PanicSafe demands at-most-once)"], hits, write=not replay)

# ------------------------------------------------------------------------------------------------
def run_precond_prop(prop, tier, seed, replay):
    t0 = time.time()
    key = content_key()
    res = cache_get("precond", key)
    if not res:
        src = os.path.join(HARNESS, "src", "bin", "preconddrv.rs")
        if not os.path.exists(src):
            sh(["python3", "tools/gen_precond.py", "src/bin/preconddrv.rs"], cwd=HARNESS)
        build_harness(["preconddrv"])
        d = os.path.join(WORK, "cache", key)
        os.makedirs(d, exist_ok=True)
        out = os.path.join(d, "precond.ndjson")
        p = sh([bin_path("preconddrv"), out], timeout=900, check=False)
        fails = []
        if p.returncode != 0:
            fails.append(("C18", 0, "driver-crashed-rc=%d" % p.returncode, ""))
            lines = [l for l in open(out, errors="replace") if l.endswith("\n")]
            open(out, "w").writelines(lines)
        r = tlc_trace("TracePrecond.tla", "TracePrecond.cfg", out, out + ".meta")
        fails += r["fails"]
        evs = [json.loads(l) for l in open(out)]
        res = {"fails": fails, "events": len(evs),
               "ctor_cases": sum(1 for e in evs if e["ev"] == "ctor"),
               "dup_ctor_cases": sum(1 for e in evs if e["ev"] == "ctor" and len(set(e["reg"])) < len(e["reg"])),
               "batch_cases": sum(1 for e in evs if e["ev"] == "batch"),
               "ragged_batch_cases": sum(1 for e in evs if e["ev"] == "batch" and len(set(e["lens"])) > 1),
               "samples": [evs[7], evs[600], evs[-5]] if len(evs) > 700 else evs[:3], "trace": out}
        cache_put("precond", key, res)
    violations = []
    for f in res["fails"]:
        line = f[1]
        rp = os.path.join(WORK, "replay", "C18-line%d.json" % line)
        os.makedirs(os.path.dirname(rp), exist_ok=True)
        case = {}
        try:
            case = json.loads(open(res["trace"]).read().splitlines()[line - 1]) if line > 0 else {}
        except Exception:
            pass
        json.dump({"line": line, "check": f[2], "case": case}, open(rp, "w"))
        violations.append({"what": "%s: %s" % (f[2], json.dumps(case)[:200]), "replay": rp})
    cov = {"evaluations": res["events"], "distinct_nontrivial": res["dup_ctor_cases"] + res["ragged_batch_cases"],
           "rule": "every registry of length 2..9 with one repeated type at every pair of positions (120) x 5 constructors, 10 duplicate-free controls x 5 constructors, every column-length vector over {0,1,2,3} for 1..4 columns (340); non-trivial = the precondition is violated (must panic); TLC checks the outcome of each case and that the enumerated space is complete",
           "samples": res["samples"], "constructor_cases": res["ctor_cases"], "batch_cases": res["batch_cases"],
           "exhaustive": True}
    finish(prop, tier, seed, "exploration", cov, violations, t0,
           ["the space is the one stated in the property (registry length <= 9, column lengths 0..3, 1..4 columns)"], [], write=not replay)

# ------------------------------------------------------------------------------------------------
import pipe_borrow
def run_borrow_prop(prop, tier, seed, replay):
    t0 = time.time()
    res = pipe_borrow.run_borrow(tier, seed)
    harness = [f for f in res["fails"] if f["prop"] == "HARNESS"]
    if harness:
        raise ToolError("generated control program rejected / family incomplete (not a verdict): %s" % harness[:3])
    kn = [k for k in load_known().get("known", []) if k["property"] == prop]
    violations, hits = [], []
    for f in res["fails"]:
        k = next((k for k in kn if k["signature"] == f["id"]), None)
        if k:
            hits.append(k["what"])
            continue
        violations.append({"what": "%s: program %s (label %s) was %s by rustc" % (f["name"], f["id"], f["label"], f["verdict"]), "replay": f["replay"]})
    cov = {"programs": res["programs"], "disagreements_checked": len(res["fails"]), "samples": res["samples"],
           "evaluations": res["programs"], "distinct_nontrivial": res["reject_cases"],
           "rule": "one program per case of spec/Borrow.tla (enumerated by TLC): each pair of view kinds on one component in views/views, views/entry views, entry/entry positions; each pair of resource view kinds; repeated entry queries through World::entry, Entries::entry and two Entries entries; component / resource / entry view outside the registry; 11 thread-crossing APIs x {Send+Sync, !Send, !Sync} payloads; every rejecting case is paired with a conflict-free control that must compile; non-trivial = labelled reject",
           "reject_cases": res["reject_cases"], "control_cases": res["control_cases"], "unconstrained_cases": res["either_cases"],
           "error_codes_seen": res["error_codes"], "exhaustive": True}
    finish(prop, tier, seed, "translation_validation", cov, violations, t0,
           ["rustc is the implementation; soundness of the trait machinery for programs outside the generated family is not established",
            "rejection is taken from the exit status; error classes are recorded, not judged"], hits, write=not replay)

def run(prop, tier, seed, replay):
    if prop == "C14":
        return run_borrow_prop(prop, tier, seed, replay)
    if prop == "C18":
        return run_precond_prop(prop, tier, seed, replay)
    if prop == "C17":
        return run_fault_prop(prop, tier, seed, replay)
    if prop in WORLD_NOTES:
        return run_world_prop(prop, tier, seed, replay)
    if prop in SCHED_INV:
        return run_sched_prop(prop, tier, seed, replay)
    raise ToolError("no check registered for " + prop)
