"""Fault-enumeration pipeline (C17): harness/faultdrv injects one panic at every call-back position
of every operation that calls user code; TLC validates PanicSafe on the ledger / allocator trace
(spec/TracePanic.tla)."""
import collections, json, os, re, shutil, subprocess, time
from vlib import *

def run_fault(tier, seed, only=None):
    key = content_key()
    name = "fault-%s" % tier if not only else "fault-replay-%s" % only
    r = cache_get(name, key)
    if r:
        return r
    t0 = time.time()
    build_harness(["faultdrv"])
    p = sh([bin_path("faultdrv"), "list"], timeout=600, check=False)
    if p.returncode != 0:
        # the dry run itself dies: that is a crash inside a safe call without any fault injected
        return {"fails": [{"prop": "C17", "name": "dry-run-crashed", "op": "?", "kind": "none", "k": 0, "replay": "-"}],
                "scenarios": 0, "ops": {}, "samples": [], "wall": time.time() - t0, "nonfiring": 0}
    total = int(p.stdout.strip().splitlines()[-1].split()[1])
    ops = {}
    for line in p.stdout.strip().splitlines()[:-1]:
        nm, rest = line.split(" ", 1)
        ops[nm] = rest
    d = os.path.join(WORK, "cache", key, name + ".d")
    shutil.rmtree(d, ignore_errors=True)
    os.makedirs(d)
    if only is not None:
        chunks = [(int(only), int(only) + 1)]
    else:
        n = 16
        step = (total + n - 1) // n
        chunks = [(i, min(total, i + step)) for i in range(0, total, step)]

    def one(ch):
        lo, hi = ch
        out = os.path.join(d, "f%04d.ndjson" % lo)
        lines = []
        cur = lo
        while cur < hi:
            part = out + ".part"
            pr = sh([bin_path("faultdrv"), "run", part, str(cur), str(hi)], timeout=900, check=False)
            got = [l for l in open(part, errors="replace") if l.endswith("\n")]
            ok = []
            for l in got:
                try:
                    json.loads(l)
                    ok.append(l)
                except Exception:
                    break
            lines += ok
            if pr.returncode == 0:
                break
            # the process died inside a scenario: find which one and in which phase
            last_begin, phase = None, "fault"
            for l in ok:
                e = json.loads(l)
                if e["ev"] == "begin":
                    last_begin, phase = e["i"], "fault"
                elif e["ev"] == "fault":
                    phase = "touch"
                elif e["ev"] == "touch":
                    phase = "drop"
                elif e["ev"] == "dropped":
                    phase = "next-setup"
            if last_begin is None:
                last_begin = cur
                lines.append(json.dumps({"ev": "begin", "i": cur, "op": "?", "kind": "?", "k": 0, "of": 0, "led": []}) + "\n")
            lines.append(json.dumps({"ev": "crashed", "i": last_begin, "phase": phase, "rc": pr.returncode}) + "\n")
            cur = last_begin + 1
        open(out, "w").writelines(lines)
        res = tlc_trace("TracePanic.tla", "TracePanic.cfg", out, out + ".meta")
        L = [json.loads(l) for l in lines]
        fails = []
        seen = set()
        for (prop, line, nm, curl) in res["fails"]:
            b = L[int(curl) - 1]
            sig = (b["op"], b["kind"], nm)
            if sig in seen:
                continue
            seen.add(sig)
            rp = os.path.join(WORK, "replay", "C17-%s-%s-%d.json" % (b["op"], b["kind"], b["i"]))
            os.makedirs(os.path.dirname(rp), exist_ok=True)
            json.dump({"scenario": b["i"], "op": b["op"], "kind": b["kind"], "k": b["k"], "check": nm}, open(rp, "w"))
            fails.append({"prop": prop, "name": nm, "op": b["op"], "kind": b["kind"], "k": b["k"], "i": b["i"], "replay": rp})
        nonfiring = sum(1 for e in L if e["ev"] == "fault" and not e["fired"])
        sample = None
        for i, e in enumerate(L):
            if e["ev"] == "begin" and e["op"] == "clone" and sample is None and i + 3 < len(L):
                sample = {"begin": {k: e[k] for k in ("i", "op", "kind", "k", "of")},
                          "fault": {"panicked": L[i + 1]["panicked"], "fired": L[i + 1]["fired"], "ledger_events": len(L[i + 1]["led"]), "heap_events": len(L[i + 1]["heap"])},
                          "dropped": {"panicked": L[i + 3]["panicked"], "ledger_events": len(L[i + 3]["led"])}}
        return {"fails": fails, "n": sum(1 for e in L if e["ev"] == "begin"), "nonfiring": nonfiring, "sample": sample}

    results = parallel(one, chunks)
    out = {"fails": [f for r in results for f in r["fails"]], "scenarios": sum(r["n"] for r in results),
           "nonfiring": sum(r["nonfiring"] for r in results), "ops": ops,
           "samples": [r["sample"] for r in results if r["sample"]][:2], "wall": time.time() - t0}
    shutil.rmtree(d, ignore_errors=True)
    cache_put(name, key, out)
    return out
