"""Shared plumbing for the brood verification checks: building the harness against /repo's working
tree, running TLC (model checking and trace validation), sharding, caching keyed by the content of
/repo + /verif, verdicts with known findings, evidence files."""
import hashlib, json, os, re, shutil, subprocess, sys, time, glob
from concurrent.futures import ThreadPoolExecutor

VERIF = os.path.dirname(os.path.dirname(os.path.abspath(__file__)))
REPO = "/repo"
SPEC = os.path.join(VERIF, "spec")
HARNESS = os.path.join(VERIF, "harness")
WORK = os.path.join(VERIF, "work")
EVID = os.path.join(VERIF, "evidence")
JAR = "/opt/veriftools/tla/tla2tools.jar:/opt/veriftools/tla/CommunityModules-deps.jar"
NCPU = 16

class ToolError(Exception):
    pass

def log(*a):
    print(*a, file=sys.stderr, flush=True)

def sh(cmd, cwd=None, timeout=3600, env=None, check=True):
    e = dict(os.environ)
    e.update({"CARGO_NET_OFFLINE": "true"})
    if env:
        e.update(env)
    p = subprocess.run(cmd, cwd=cwd, timeout=timeout, env=e, stdout=subprocess.PIPE,
                       stderr=subprocess.STDOUT, text=True, errors="replace")
    if check and p.returncode != 0:
        raise ToolError("command failed (%d): %s\n%s" % (p.returncode, cmd, p.stdout[-4000:]))
    return p

# ------------------------------------------------------------------------------------------------
def _hash_tree(h, root, exts=None, skip=("target", ".git", "work", "evidence")):
    for d, dirs, files in sorted(os.walk(root)):
        dirs[:] = sorted(x for x in dirs if x not in skip)
        for f in sorted(files):
            if exts and not f.endswith(exts):
                continue
            p = os.path.join(d, f)
            h.update(p.encode())
            try:
                with open(p, "rb") as fh:
                    h.update(fh.read())
            except OSError:
                pass

def content_key(*extra):
    """Hash of /repo's sources (tracked or not), the specs, the harness and the tools."""
    h = hashlib.sha256()
    _hash_tree(h, os.path.join(REPO, "src"))
    for f in ("Cargo.toml", "Cargo.lock"):
        p = os.path.join(REPO, f)
        if os.path.exists(p):
            h.update(open(p, "rb").read())
    _hash_tree(h, SPEC)
    _hash_tree(h, os.path.join(HARNESS, "src"))
    _hash_tree(h, os.path.join(HARNESS, "tools"))
    _hash_tree(h, os.path.join(VERIF, "tools"))
    for f in ("Cargo.toml",):
        h.update(open(os.path.join(HARNESS, f), "rb").read())
    for x in extra:
        h.update(str(x).encode())
    return h.hexdigest()[:24]

def cache_get(name, key):
    p = os.path.join(WORK, "cache", key, name + ".json")
    if os.path.exists(p):
        try:
            return json.load(open(p))
        except Exception:
            return None
    return None

def cache_put(name, key, value):
    d = os.path.join(WORK, "cache", key)
    os.makedirs(d, exist_ok=True)
    tmp = os.path.join(d, name + ".json.tmp%d" % os.getpid())
    json.dump(value, open(tmp, "w"))
    os.replace(tmp, os.path.join(d, name + ".json"))

def prune_work(keep_keys):
    """Keep the work directory small: drop cache entries of other content keys."""
    c = os.path.join(WORK, "cache")
    if os.path.isdir(c):
        for k in os.listdir(c):
            if k not in keep_keys:
                shutil.rmtree(os.path.join(c, k), ignore_errors=True)

# ------------------------------------------------------------------------------------------------
_built = {}
def build_harness(bins=None, timeout=3000):
    """(Re)build the harness; cargo rebuilds brood from /repo's current working tree."""
    tag = ",".join(bins or ["*"])
    if tag in _built:
        return
    gen = os.path.join(HARNESS, "src", "shapes.rs")
    if not os.path.exists(gen):
        sh(["python3", "tools/gen_shapes.py", "src/shapes.rs"], cwd=HARNESS)
    cmd = ["cargo", "build", "--offline", "--release"]
    for b in (bins or []):
        cmd += ["--bin", b]
    lock = os.path.join(WORK, "build.lock")
    os.makedirs(WORK, exist_ok=True)
    import fcntl
    with open(lock, "w") as lf:
        fcntl.flock(lf, fcntl.LOCK_EX)
        t = time.time()
        # the binaries are looked up under harness/target: never let the caller's environment move them
        p = sh(cmd, cwd=HARNESS, timeout=timeout, check=False,
               env={"CARGO_TARGET_DIR": os.path.join(HARNESS, "target"), "RUSTFLAGS": ""} if False else {"CARGO_TARGET_DIR": os.path.join(HARNESS, "target")})
        if p.returncode != 0:
            raise ToolError("harness build failed:\n" + p.stdout[-6000:])
        log("[build] harness %s built in %.1fs" % (tag, time.time() - t))
    _built[tag] = True

def bin_path(name):
    return os.path.join(HARNESS, "target", "release", name)

# ------------------------------------------------------------------------------------------------
def java_cmd(xmx="3g", deque=True, xss="1g"):
    c = ["java", "-Xss" + xss, "-Xmx" + xmx, "-XX:+UseSerialGC"]
    if deque:
        c.append("-Dtlc2.tool.queue.IStateQueue=StateDeque")
    return c + ["-cp", JAR, "tlc2.TLC"]

FAIL_RE = re.compile(r'^<<"FAIL", "([^"]*)", (\d+), "([^"]*)"(?:, "?([^">]*)"?)?>>')
CONS_RE = re.compile(r'^<<"CONSUMED", (-?\d+), (\d+)>>')

def tlc_trace(spec, cfg, trace, metadir, timeout=1800, xmx="3g", extra_env=None):
    """Validate one trace file. Returns dict(consumed, total, fails=[(prop,line,name,op)], out)."""
    os.makedirs(metadir, exist_ok=True)
    env = {"TRACE": trace}
    if extra_env:
        env.update(extra_env)
    cmd = java_cmd(xmx) + ["-workers", "1", "-noGenerateSpecTE", "-metadir", metadir, "-cleanup",
                           "-config", cfg, spec]
    t = time.time()
    try:
        p = sh(cmd, cwd=SPEC, timeout=timeout, env=env, check=False)
    except subprocess.TimeoutExpired:
        raise ToolError("TLC timed out on " + trace)
    out = p.stdout
    fails, consumed, total = [], None, None
    # TLC wraps long tuples over several lines: re-join them
    joined, buf = [], None
    for line in out.splitlines():
        if buf is not None:
            buf += " " + line.strip()
            if line.rstrip().endswith(">>"):
                joined.append(buf.replace("<< ", "<<").replace(" >>", ">>"))
                buf = None
            continue
        if line.startswith('<< "FAIL"') and not line.rstrip().endswith(">>"):
            buf = line.strip()
            continue
        joined.append(line)
    for line in joined:
        m = FAIL_RE.match(line)
        if m:
            fails.append((m.group(1), int(m.group(2)), m.group(3), m.group(4) or ""))
            continue
        if line.startswith('<<"FAIL"'):
            raise ToolError("unparsable FAIL record from TLC: " + line)
        m = CONS_RE.match(line)
        if m:
            consumed, total = int(m.group(1)), int(m.group(2))
    shutil.rmtree(metadir, ignore_errors=True)
    if consumed is None or consumed != total:
        raise ToolError("TLC did not consume the whole trace %s (%s/%s):\n%s" %
                        (trace, consumed, total, out[-3000:]))
    return {"consumed": consumed, "total": total, "fails": fails, "wall": time.time() - t}

STATS_RE = re.compile(r'^(\d+) states generated, (\d+) distinct states found')

def tlc_mc(spec, cfg, metadir, workers=8, timeout=3600, xmx="8g", simulate=None, extra=None, env=None):
    """Model-check a spec. Returns dict(ok, generated, distinct, out, violated)."""
    os.makedirs(metadir, exist_ok=True)
    cmd = java_cmd(xmx, deque=False, xss="64m") + ["-workers", str(workers), "-noGenerateSpecTE",
                                                   "-metadir", metadir, "-cleanup", "-config", cfg]
    if simulate:
        cmd += ["-simulate", simulate]
    if extra:
        cmd += extra
    cmd.append(spec)
    t = time.time()
    try:
        p = sh(cmd, cwd=SPEC, timeout=timeout, check=False, env=env)
    except subprocess.TimeoutExpired:
        shutil.rmtree(metadir, ignore_errors=True)
        raise ToolError("TLC model checking timed out: " + spec)
    out = p.stdout
    gen = dist = 0
    for line in out.splitlines():
        m = STATS_RE.match(line)
        if m:
            gen, dist = int(m.group(1)), int(m.group(2))
    violated = None
    m = re.search(r"Error: Invariant (\S+) is violated", out)
    if m:
        violated = m.group(1)
    m2 = re.search(r"Error: (Action property|Temporal properties) (\S*) ?(is|were) violated", out)
    if m2 and not violated:
        violated = m2.group(2) or "temporal"
    ok = ("Model checking completed. No error has been found." in out) or \
         (simulate is not None and violated is None and "Error:" not in out)
    shutil.rmtree(metadir, ignore_errors=True)
    if not ok and violated is None:
        raise ToolError("TLC failed on %s:\n%s" % (spec, out[-4000:]))
    return {"ok": ok, "generated": gen, "distinct": dist, "violated": violated,
            "wall": time.time() - t, "out": out}

def parallel(fn, items, n=NCPU):
    with ThreadPoolExecutor(max_workers=n) as ex:
        return list(ex.map(fn, items))

# ------------------------------------------------------------------------------------------------
def load_known():
    p = os.path.join(VERIF, "known_findings.json")
    if os.path.exists(p):
        return json.load(open(p))
    return {"known": [], "fixed": []}

def finish(prop, tier, seed, level, coverage, violations, t0, assumptions=None, known_hits=None, write=True):
    """violations: list of dict(what, replay). Writes evidence, prints verdict lines, exits."""
    os.makedirs(EVID, exist_ok=True)
    ev = {
        "property_id": prop, "tier": tier, "seed": seed, "level": level, "coverage": coverage,
        "assumptions": assumptions or [], "wall_s": round(time.time() - t0, 2),
        "violations": len(violations),
    }
    if known_hits:
        ev["known_findings_seen"] = known_hits
    if write:
        tmp = os.path.join(EVID, prop + ".json.tmp")
        json.dump(ev, open(tmp, "w"), indent=1)
        os.replace(tmp, os.path.join(EVID, prop + ".json"))
    for k in (known_hits or []):
        print("KNOWN-FINDING: property=%s %s" % (prop, k))
    for v in violations[:20]:
        print("VIOLATION property=%s replay=%s" % (prop, v["replay"]))
        print("  " + v["what"])
    if violations:
        sys.exit(1)
    print("OK property=%s tier=%s %s" % (prop, tier, json.dumps({k: v for k, v in coverage.items()
          if isinstance(v, (int, float, bool))})))
    sys.exit(0)
