"""World pipeline: random / scripted / model-derived histories executed on real brood Worlds by
harness/worlddrv, every event validated by TLC against spec/TraceWorld.tla.  Serves C01, C02, C04,
C06, C10, C13, C15, C16 (and contributes to C03, C05)."""
import collections, glob, hashlib, json, os, shutil, time
from vlib import *

WORLD_PROPS = ["C01", "C02", "C04", "C05", "C06", "C10", "C13", "C15", "C16", "C03"]

TIERS = {
    # profile -> (shards, histories per shard, ops per history)
    "quick": {"mixed": (16, 2, 220), "queries": (6, 2, 160), "par": (4, 1, 170), "untrusted": (6, 3, 200)},
    "thorough": {"mixed": (16, 24, 400), "queries": (8, 16, 300), "par": (8, 6, 250), "untrusted": (16, 16, 300)},
}

ENUM = {"quick": [(3, 16), (4, 16 * 24)], "thorough": [(3, 16), (4, 16), (5, 16 * 40)]}

def scan_trace(path):
    """Cheap statistics of a trace (no judgement): per-op counts and per-property relevant events."""
    st = collections.Counter()
    sigs = set()
    n = 0
    sample = None
    for line in open(path):
        e = json.loads(line)
        n += 1
        op = e["op"]
        st["op:" + op] += 1
        if op == "crashed" or e.get("light"):
            continue
        ws = e["obs"]["ws"]
        shape = tuple(tuple(sorted("".join(sorted(c.keys())) for c in w["ents"].values())) if w.get("live") else None for w in ws)
        args = (op, e.get("w"), tuple(e.get("order", [])), len(e.get("rows", [])), e.get("c"), e.get("mode"), e.get("enc"), e.get("variant"), e.get("q"))
        sigs.add(hash((args, shape)))
        if op in ("remove", "add", "remc", "qmut", "add2") and "id" in e:
            w = ws[e["w"] - 1]
            if w.get("live") and e["id"] not in w["ents"]:
                st["dead-target-ops"] += 1
        for w in ws:
            if w.get("live"):
                st["probes"] += len(w["probes"])
                st["dead-id-probes"] += sum(1 for p in w["probes"].values() if not p["con"])
                st["world-observations"] += 1
                st["max-entities"] = max(st["max-entities"], len(w["ents"]))
                st["tables-seen"] += len(w["dump"]["tables"])
                st["empty-tables-seen"] += sum(1 for t in w["dump"]["tables"] if t["len"] == 0)
                st["eq-true-pairs"] += sum(1 for x in w["eq"] if x) - 1
        if op == "extend":
            st["extend-rows"] += len(e["res"].get("ids", []))
            if len(e["res"].get("ids", [])) == 0:
                st["extend-empty-batch"] += 1
        if e.get("m") == 2:
            st["mirrored-twin-ops"] += 1
        if op == "deser_struct":
            st["untrusted-inputs"] += 1
            st["structured-mutations:" + ("accepted" if e["res"]["ok"] else "rejected")] += 1
            if e["res"]["ok"] and not e["res"]["same"]:
                st["untrusted-accepted-modified"] += 1
        if op == "deser_mut":
            st["untrusted-inputs"] += 1
            st["untrusted:" + ("accepted" if e["res"]["ok"] else "rejected")] += 1
            st["untrusted-kind:%s/%s" % (e["enc"], e["mkind"])] += 1
            if e["res"]["ok"] and not e["res"]["same"]:
                st["untrusted-accepted-modified"] += 1
        if op == "query":
            k = e["desc"]["kind"]
            st["query:" + k] += 1
            st["query-results"] += len(e["res"]["items"])
            st["query-kinds-seen:%d" % e["q"]] = 1
            if k == "par":
                st["par-results"] += len(e["res"]["items"])
                st["par-pool:%d" % e.get("pool", 0)] += 1
                st["par-max-results"] = max(st["par-max-results"], len(e["res"]["items"]))
        st["ledger-events"] += len(e["led"])
        st["heap-events"] += len(e.get("heap", []))
        st["heap-frees"] += sum(1 for h in e.get("heap", []) if h["k"] != "alloc")
        st["drops"] += sum(1 for x in e["led"] if x["k"] == "drop")
        if sample is None and op == "extend" and e["res"].get("ids"):
            sample = {k: v for k, v in e.items() if k not in ("obs",)}
    st["events"] = n
    return st, sigs, sample

REGN = {"quick": 400, "thorough": 20000}

def scan_regn(path):
    st = collections.Counter()
    sigs = set()
    n = 0
    for line in open(path):
        e = json.loads(line)
        n += 1
        st["op:" + e["op"]] += 1
        if e["op"] != "regn":
            continue
        st["regn-cases"] += 1
        st["regn:n=%d" % e["n"]] += 1
        st["regn:enc=%s" % e["enc"]] += 1
        if e["n"] % 8 == 0:
            st["regn-registry-size-multiple-of-8"] += 1
        if e.get("res", {}).get("pad") == "rejected":
            st["regn-padding-bit-inputs"] += 1
        sigs.add(hash(("regn", e["n"], e["enc"], tuple(sorted(set(e["masks"]))), bool(e["remcs"]), bool(e["removes"]))))
    st["events"] = n
    return st, sigs, None

def regn_crash(out, rc):
    lines = [l for l in open(out, errors="replace") if l.endswith("\n")] if os.path.exists(out) else []
    cur = {}
    try:
        cur = json.load(open(out + ".cur"))
    except Exception:
        pass
    with open(out, "w") as f:
        for l in lines:
            f.write(l)
        ev = dict(cur)
        ev.update({"op": "crashed", "was": "regn", "rc": rc, "n": cur.get("n", 0)})
        f.write(json.dumps(ev) + "\n")

def is_regn_script(path):
    try:
        return json.loads(open(path).readline()).get("op") == "regn"
    except Exception:
        return False

def extract_replay(trace, line, out):
    """Write the op script of the history containing `line` (1-based), up to that line."""
    ops = []
    if os.path.basename(trace).startswith("regn") or is_regn_script(trace):
        for i, l in enumerate(open(trace), 1):
            if i == line:
                e = json.loads(l)
                e = {k: v for k, v in e.items() if k in ("op", "n", "masks", "remcs", "removes", "enc")}
                e["op"] = "regn"
                os.makedirs(os.path.dirname(out), exist_ok=True)
                open(out, "w").write(json.dumps(e) + "\n")
        return out
    for i, l in enumerate(open(trace), 1):
        e = json.loads(l)
        if e["op"] == "crashed":
            if e.get("args") and not (ops and ops[-1] == e["args"]):
                ops.append(e["args"])
            break
        op = {k: v for k, v in e.items() if k not in ("obs", "led", "res", "panic", "id", "panicmsg", "light")}
        if e["op"] == "panicked":
            op["op"] = e["was"]
            op.pop("was", None)
        if op["op"] == "reset":
            ops = []
        else:
            ops.append(op)
        if i >= line:
            break
    os.makedirs(os.path.dirname(out), exist_ok=True)
    with open(out, "w") as f:
        for o in ops:
            f.write(json.dumps(o) + "\n")
    return out

def crash_recover(trace, rc):
    """The driver process died inside a library call (abort / segfault).  That is data: keep the
    complete lines, re-run the same prefix with the crashing op observed structurally only (dumps),
    and append a final `crashed` event."""
    lines = []
    if not os.path.exists(trace):
        open(trace, "w").close()     # the driver died before it produced anything (warm-up)
    for l in open(trace, errors="replace"):
        if l.endswith("\n"):
            try:
                json.loads(l)
                lines.append(l)
            except Exception:
                break
    cur = None
    try:
        cur = json.load(open(trace + ".cur"))
    except Exception:
        pass
    ops = []
    for l in lines:
        e = json.loads(l)
        ops.append({k: v for k, v in e.items() if k not in ("obs", "led", "res", "panic", "id", "panicmsg")})
    light = None
    if cur is not None:
        script = trace + ".prefix"
        with open(script, "w") as f:
            for o in ops + [cur]:
                f.write(json.dumps(o) + "\n")
        p = sh([bin_path("worlddrv"), "script", script, trace + ".light", "--light-last"], timeout=1200, check=False)
        if p.returncode == 0:
            ll = open(trace + ".light").read().splitlines()
            if len(ll) == len(ops) + 1:
                light = ll[-1]
        for x in (script, trace + ".light", trace + ".light.cur"):
            try:
                os.remove(x)
            except OSError:
                pass
    with open(trace, "w") as f:
        for l in lines:
            f.write(l)
        if light:
            f.write(light + "\n")
        ev = {"op": "crashed", "was": (cur or {}).get("op", "warm-up"), "rc": rc, "w": (cur or {}).get("w", 1)}
        if cur is not None:
            ev["args"] = cur      # (TLC's Json module rejects null)
        f.write(json.dumps(ev) + "\n")

def run_world(tier, seed, scripts_only=None):
    """Returns the cached-or-fresh result dict of the world pipeline."""
    key = content_key()
    name = "world-%s-%s" % (tier, seed)
    if scripts_only:
        name = "world-replay-" + hashlib.sha256(open(scripts_only, "rb").read()).hexdigest()[:12]
    r = cache_get(name, key)
    if r:
        log("[world] using cached result %s" % key)
        return r
    t0 = time.time()
    build_harness(["worlddrv", "regndrv"])
    d = os.path.join(WORK, "cache", key, name + ".d")
    shutil.rmtree(d, ignore_errors=True)
    os.makedirs(d)
    jobs = []
    if scripts_only and is_regn_script(scripts_only):
        jobs.append(("regn", ("script", scripts_only), os.path.join(d, "regn-replay.ndjson")))
    elif scripts_only:
        jobs.append(("script", scripts_only, os.path.join(d, "replay.ndjson")))
    else:
        # registries of 1, 7, 8, 15, 16, 17, 24 components (RegN.tla)
        for i in range(2):
            jobs.append(("regn", (seed * 1000 + i, REGN[tier] // 2), os.path.join(d, "regn%02d.ndjson" % i)))
        for prof, (shards, hist, nops) in TIERS[tier].items():
            for i in range(shards):
                jobs.append(("random", (seed * 1000 + i, hist, nops, prof), os.path.join(d, "%s%02d.ndjson" % (prof, i))))
        # bounded-exhaustive histories over the small alphabet (depth, modulus): 16 slices each
        for depth, mod in ENUM[tier]:
            for i in range(16):
                jobs.append(("enum", (depth, mod, i), os.path.join(d, "enum%d-%02d.ndjson" % (depth, i))))
        for s in sorted(glob.glob(os.path.join(VERIF, "regress", "world", "*.ndjson"))):
            jobs.append(("script", s, os.path.join(d, "reg-" + os.path.basename(s))))
        for s in sorted(glob.glob(os.path.join(WORK, "cover", "*.ndjson"))):
            jobs.append(("script", s, os.path.join(d, "cov-" + os.path.basename(s))))

    def one(job):
        kind, arg, out = job
        if kind == "regn":
            p = sh([bin_path("regndrv"), str(arg[0]), str(arg[1]), out], timeout=1200, check=False)
            if p.returncode == 2:
                raise ToolError("regndrv harness error: " + p.stdout[-2000:])
            if p.returncode != 0:
                regn_crash(out, p.returncode)
            res = tlc_trace("TraceRegN.tla", "TraceRegN.cfg", out, out + ".meta", timeout=3000)
            st, sigs, sample = scan_regn(out)
            return {"trace": out, "fails": [(a, b, c, "regn n=%s" % d) for (a, b, c, d) in res["fails"]], "stats": st, "sigs": sigs,
                    "sample": sample, "kind": kind, "src": None}
        if kind == "random":
            p = sh([bin_path("worlddrv"), "random", str(arg[0]), str(arg[1]), str(arg[2]), out, arg[3]], timeout=1200, check=False)
        elif kind == "enum":
            p = sh([bin_path("worlddrv"), "enum", str(arg[0]), str(arg[1]), str(arg[2]), out], timeout=3000, check=False)
        else:
            p = sh([bin_path("worlddrv"), "script", arg, out], timeout=1200, check=False)
        if p.returncode == 2:
            raise ToolError("worlddrv harness error: " + p.stdout[-2000:])
        if p.returncode != 0:
            crash_recover(out, p.returncode)
        res = tlc_trace("TraceWorld.tla", "TraceWorld.cfg", out, out + ".meta", timeout=3000)
        st, sigs, sample = scan_trace(out)
        if kind == "enum":
            st["enumerated-histories(depth %d)" % arg[0]] = st.get("op:reset", 0)
        return {"trace": out, "fails": res["fails"], "stats": st, "sigs": sigs, "sample": sample,
                "kind": kind, "src": arg if kind == "script" else None}

    results = parallel(one, jobs)
    stats = collections.Counter()
    sigs = set()
    fails = []
    samples = []
    drift = []
    for r in results:
        for k, v in r["stats"].items():
            if k in ("max-entities", "par-max-results") or k.startswith("query-kinds-seen"):
                stats[k] = max(stats[k], v)
            else:
                stats[k] += v
        sigs |= r["sigs"]
        if r["sample"] and len(samples) < 3:
            samples.append(r["sample"])
        seen = {}
        for (prop, line, chk, op) in r["fails"]:
            if prop == "DRIFT":
                stats["strict-model-drift"] += 1
                if len(drift) < 5:
                    drift.append("line %d of %s (op %s)" % (line, os.path.basename(r["trace"]), op))
                continue
            if prop == "INFO":
                stats["info:" + chk] += 1
                continue
            # one replay script per (trace, property): the history up to the first failure
            if prop not in seen:
                rp = os.path.join(WORK, "replay", "%s-%s-%d.ndjson" % (prop, os.path.basename(r["trace"]).replace(".ndjson", ""), line))
                extract_replay(r["trace"], line, rp)
                seen[prop] = [rp, 0]
            seen[prop][1] += 1
            if seen[prop][1] <= 5:
                fails.append({"prop": prop, "line": line, "name": chk, "op": op,
                              "trace": r["trace"], "replay": seen[prop][0],
                              "profile": os.path.basename(r["trace"])[:-9]})
    out = {"tier": tier, "seed": seed, "traces": len(results), "stats": dict(stats),
           "distinct": len(sigs), "fails": fails, "drift": drift, "samples": samples, "wall": time.time() - t0,
           "dir": d}
    # traces are large: keep only the ones with failures
    failing = {f["trace"] for f in fails}
    for r in results:
        if r["trace"] not in failing and not scripts_only:
            try:
                os.remove(r["trace"])
            except OSError:
                pass
    cache_put(name, key, out)
    prune_work({key})
    return out
