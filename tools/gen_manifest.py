#!/usr/bin/env python3
"""Regenerate MANIFEST.json from the table below (kept in one place so it stays valid)."""
import json, os, subprocess
V = os.path.dirname(os.path.dirname(os.path.abspath(__file__)))

CHECKS = {
 "C01": ("model_checking", "TLC model checking of the store model (refinement of the reference map) + TLC trace validation of real executions",
         "Exhaustive for the bounded store model (MCWorld Inv_C01); every event of seeded random / scripted / model-derived histories on real Worlds is validated by TLC against the abstract effect of the operation. Batches are built from columns (Batch::new) and through both entities! macro forms (component tuple + count, list of tuples, incl. the empty shape); registries of 1..24 components are exercised by RegN. Right level: the property quantifies over histories; the model discharges it for all small histories and the trace validation ties the model's relation to the code step by step.",
         "Bounded constants; harness logging and the read-only dump hook are trusted; rustc/TLC trusted.", "6 C01"),
 "C02": ("model_checking", "TLC model checking (identifier discipline) + TLC trace validation with probes of every identifier ever issued",
         "MCWorld Inv_C02 exhaustively (new ids unused, stale ids never resolve, across reuse by allocate and allocate_batch with batch <,=,> free list); on real Worlds contains/entry/Entries::entry are probed for every id ever issued in the lineage plus forged ids after every event.",
         "Bounded; generations far below wrap-around.", "6 C02"),
 "C04": ("exploration", "TLC trace validation of a per-value drop ledger + TLC model checking of the row move of Entry::add / Entry::remove (spec/Reshape.tla) and of the shape-preserving table operations (spec/Ledger.tla)",
         "Every construction, clone, deserialization and drop of every individually identified component value and resource is logged; after every event TLC requires the live-value set of the ledger to equal the values reachable in the observed worlds (no leak, no premature or double drop, no aliasing) and emptiness after all worlds are dropped. spec/Reshape.tla checks, for every instance over 3 components, that the row move through the packed buffer drops exactly the removed value (the pinned design, which never dropped it, is kept as a self-test that must violate ExactlyOnce). spec/Ledger.tla checks push, the per-column swap_remove under the shared table length, clear, clone / clone_from and drop on 2 tables x 2 columns x <=3 rows with individually identified values (ExactlyOnce, NoLeak, NoDangling, NoAlias; two wrong designs are kept as self-tests that must be rejected). Leaks of a FAILED deserialization attempt are reported as INFO only (no world ever owned those values).",
         "Zero-sized and 1-byte components are ledgered by count, not identity.", "6 C04"),
 "C05": ("other", "TLC trace validation of the allocator-call protocol recorded around every library call + self-checking payloads + crash capture",
         "A global-allocator wrapper records every alloc/dealloc/realloc issued inside library calls (and later calls on those blocks) with what its book knows about the block; TLC requires: no release/resize of a dead or unknown block (double free, stray pointer), release/resize layout equal to the allocation layout (the 'Vec rebuilt with wrong capacity/type' failure), no library block left after all worlds are dropped. Freed blocks are poisoned and quarantined and every component read verifies a type tag + checksum, so type confusion and reads through stale columns are observed; a crash inside a safe call sequence is recorded and reported. Registry mixes zero-sized, 1-byte, small, align(64) and heap-owning components; drivers exercise reserve, shrink_to_fit, batch adoption and every view combination.",
         "Does not decide in-bounds-of-something-else accesses that are not component reads; allocations made on rayon worker threads are not attributed.", "6 C05 and 10"),
 "C06": ("model_checking", "TLC model checking (deserialization accepts every reachable store) + TLC validation of real round trips and lock-step twins",
         "MCWorld Inv_C06 + Inv_C01 over SerDe; real round trips through serde_json and serde_assert token streams (human-readable and compact), checked for Ok, equality in both directions, same content/resources, StoreInv of the result and identical behaviour of original and copy under mirrored further operations. spec/RegN.tla + regndrv repeat the round trip for registries of 1, 7, 8, 15, 16, 17 and 24 components (identifier wire form = ceil(n/8) bytes, padding bits exist iff n % 8 != 0; MCRegN exhaustive for n = 1..17).",
         "Bounded; three encodings; seven registry sizes besides the main 9-component one.", "6 C06"),
 "C10": ("model_checking", "TLC model checking of Clone/CloneFrom on the store model + TLC trace validation",
         "2-world MCWorld instance: Clone and CloneFrom preserve StoreInv and represent the source's map; on real Worlds content, resources, token freshness (deep copy), equality, frame conditions on every other world after every later event, and lock-step twins.",
         "Bounded.", "6 C10"),
 "C11": ("model_checking", "TLC model checking of spec/Serde.tla (acceptance checks sufficient for StoreInv over the mutation closure of reachable encodings) + mutated encodings deserialized by the real code, verdict and resulting store compared by TLC with Accepts / Decode",
         "Encodings of reachable worlds in three formats are mutated (every numeric field incl. declared lengths, identifier bytes, entity index/generation, free-list entries, values; token deletion/duplication/swap; field renames; element deletion/duplication) and fed to Deserialize. TLC requires an error, or a world that satisfies StoreInv, the identifier probes, the value ledger (no double drop) and the allocator protocol at once and under the random operations that follow on that world in the same history. For structured mutations of the JSON encoding (vocabulary of Serde.tla: row index / generation, row delete / duplicate, declared length, identifier bits, table delete / duplicate, allocator length, free-list delete / duplicate / push / alter, 1-3 of them incl. the coordinated row-alias pair) TLC predicts the verdict (Accepts) and the resulting store (Decode) from the previous dump and compares both with what the code did; token-level and text-level single-site mutations are checked for validity of the outcome only. Leaks of a failed attempt are reported as INFO only. For registries of 7, 15 and 17 components a set padding bit in the last identifier byte must be refused (RegN).",
         "Mutations are single-site; declared lengths stay within the input size.", "6 C11"),
 "C13": ("model_checking", "TLC model checking of StoreInv + StoreInv evaluated by TLC on the real store dump after every event",
         "StoreInv (free list = inactive slots without duplicates, slot<->row bijection, lengths, one table per component set, lookup tables consistent) is an invariant of the bounded model and is evaluated on the hook's dump of every live world after every event of every trace.",
         "The dump hook reads the private fields faithfully.", "6 C13"),
 "C15": ("exploration", "TLC trace validation of resource views",
         "get_mut, view_resources and query resource views in 14 subset/order/mutability variants over 3 token-carrying resources; TLC checks identity (token) and value of each returned resource, visibility of writes, and that no entity operation, clone or round trip changes, duplicates or loses a resource. Under run_schedule (fork/join traces of the schedule family, incl. triples whose only conflict is a resource) a task that accesses a resource is never forked while a conflicting access is open or before a conflicting predecessor finished, and the final resources equal those of the sequential run.",
         "3 resources; orders that brood's type machinery rejects at compile time cannot be exercised.", "6 C15"),
 "C16": ("model_checking", "TLC model checking of the strict equality operator (Inv_C16) + TLC trace validation of world equality",
         "WorldStore!StoreEq (len, tables by bytes with identifier and component columns in order, slots, free list in order) is reflexive, symmetric and implies equal reference maps on every pair of reachable stores of the 2-world model; on real worlds the logged == is compared with StoreEq evaluated on the observed stores (drift). == is logged for every ordered pair of live worlds after every event; TLC checks reflexivity, symmetry, eq => same identifiers/values/resources, and eq right after clone and round trip; twins that are then mutated exercise the contrapositive, as do permuted near-miss pairs (after a copy, the rows of one table are re-bound to the identifiers in another order while every column stays equal position by position).",
         "<=3 live worlds.", "6 C16"),
 "C03": ("exploration", "specification-derived query family executed on real Worlds, every result validated by TLC against the query semantics of spec/Access.tla evaluated on the reference map",
         "260 generated queries (view kinds alone and pairwise, orders, identifier view, nested filters, views as filters, World::entry, every Entries super/sub-view pairing, iteration combined with entry views) are run at random points of random histories; TLC checks the result set or multiset, per-item values and identities, None exactly when absent, writes visible on exactly the matched entities, and lo <= remaining <= hi for every size_hint.",
         "The family is finite and fixed; zero-sized and 1-byte components are compared by value.", "6 C03"),
 "C09": ("model_checking", "TLC model checking of the producer split algebra (spec/ParSplit.tla) + par_query results on rayon pools of 1-16 threads validated by TLC against the sequential query semantics",
         "ParSplit: for every split tree of the zipped producers (mutable slice, RepeatNone, shared slice) every row is yielded exactly once. The parallel-capable part of the query family is run with par_query on worlds with many, empty, short and long tables under pools of 1,2,3,4,8,16 threads; TLC requires the multiset of results to equal the reference answer, every entity once, writes equal to the sequential semantics, and pairwise distinct addresses among mutably yielded values. rayon's stealing is sampled, not enumerated (DESIGN section 10).",
         "Split patterns are those rayon produces for the sampled pool sizes.", "6 C09"),
 "C07": ("model_checking", "TLC model checking of the run-time staging model + TLC trace validation of every admissible execution order of generated schedules (deterministic fork/join shim) and of real rayon runs",
         "spec/Schedule.tla (stage-by-stage fork, add-on scan, joins) is checked for ExactlyOnce and SeqEquivalent over all schedules of <=3 tasks x 8 world contents x all execution orders; 136 (quick) / ~750 (thorough) generated schedules over 17 task kinds are executed on real Worlds in every order the fork/join structure admits and on rayon pools of 1/2/4/8 threads, and TLC requires every task exactly once, conflicting tasks in declared order, and final world, resources and per-task observations equal to running the tasks one by one on a twin world.",
         "The shim reports rayon::join faithfully; bounded schedule length (2-4 tasks) and alphabet.", "6 C07"),
 "C08": ("model_checking", "TLC model checking (NoConflictingOverlap) + structural TLC validation of fork/join traces",
         "NoConflictingOverlap is an invariant of spec/Schedule.tla (and is violated by the pre-fix duplicate-key variant, checked as a self-test); on real runs a fork of task t while a task u is forked-and-not-joined is accepted only if t and u cannot touch the same data of a stored entity through iterator, resource views or entry views. The verdict is structural, so one trace covers all interleavings of that run.",
         "Conflict oracle = spec/Access.tla (rows must exist for a conflict); bounded schedule family.", "6 C08"),
 "C12": ("model_checking", "TLC model checking (GreedyParallel, Termination under weak fairness) + TLC validation of fork/join traces, watchdog for termination",
         "GreedyParallel and Termination hold on spec/Schedule.tla; on real runs every pair of tasks that greedy in-order grouping by declared access puts in one group must be forked inside one join region (excused only when exactly one of the two was started early with the previous stage), and every run on pools of 1/2/4/8 threads and in the single-threaded deterministic shim must reach the end of run_schedule.",
         "Greedy grouping yardstick = Access!StageOf; hang watchdog 600 s per bin.", "6 C12"),
 "C17": ("fault_enumeration", "panic injected at every call-back position enumerated from a dry run; ledger and allocator trace validated by TLC against PanicSafe (spec/TracePanic.tla)",
         "For 24 operations that invoke user code and every position k of every call-back kind (Clone, Drop, PartialEq, Debug, Serialize, Deserialize, system / parallel closure bodies), one panic is injected on a world with multi-column tables, then every reachable value is read, every identifier issued at set-up is resolved through World::entry (it must land on a row of a table holding its own values), and every world is dropped. TLC requires: the panic reaches the caller, no value dropped twice, no drop of a never-created value, no user code on a dropped value, no dropped or corrupt value reachable, allocator protocol intact, worlds droppable. Exhaustive over the enumerated (operation, kind, k) space; nine failing (operation, kind) classes of the pinned tree are recorded in known_findings.json. Design models: spec/MCPanic.tla (per-column loops) and spec/Reshape.tla (row move of Entry::remove: dropping the removed value last is Consistent, dropping it in the middle of the move is a checked counterexample).",
         "One panic per scenario; world shapes fixed; leaks after a panic are accepted.", "6 C17 and 7"),
 "C14": ("translation_validation", "program family enumerated and labelled by TLC from spec/Borrow.tla, compiled by rustc against the current tree; verdicts validated by TLC (TraceBorrow)",
         "643 programs: every pair of view kinds on one component in each position (views/views, views/entry views, entry/entry; the former two, parallel views and System views also with an entity identifier view written first / last / in the middle), sub-views of entry views, resource view pairs, repeated entry queries (World::entry, Entries::entry, two entries), types outside the registry, 11 thread-crossing APIs x 3 payload kinds; each rejecting case has a conflict-free control that must compile (else tool error). The compiler is the implementation; TLC contributes the enumeration, the aliasing / Send / Sync oracle and the comparison. Three accepted programs (two usable results of Entries entry queries) are recorded in known_findings.json.",
         "Programs outside the family are not covered; rustc trusted.", "6 C14 and 10"),
 "C18": ("exploration", "exhaustive enumeration of the stated space, outcomes validated by TLC against Precond.tla (enabledness of Construct / BatchNew) with a completeness check of the enumeration",
         "All 120 registries of length 2..9 with one repeated type x {new, with_resources, default, Deserialize human-readable, Deserialize compact} must panic, 10 duplicate-free controls must return; all 340 column-length vectors over {0,1,2,3} for 1..4 columns: Batch::new panics iff lengths differ, and an accepted batch stores exactly that many rows. TLC checks every outcome and that the whole space was enumerated. A batch written as entities!((..); n) with a side-effecting n must still get columns of one length (the count evaluated per column was a defect of the pinned tree, fixed).",
         "Bounded exactly as the property states.", "6 C18"),
}

def main():
    m = {
        "version": 1,
        "setup_cmd": "./setup.sh",
        "hooks": {
            "guard": "brood_verif",
            "enable": "RUSTFLAGS='--cfg brood_verif' via harness/.cargo/config.toml (harness has a path dependency on /repo)",
            "baseline_off_cmd": "cd /repo && cargo test --workspace --no-fail-fast --offline",
            "source_commits": subprocess.run(["git", "-C", "/repo", "log", "--format=%H %s", "--grep", "^verif hook"], capture_output=True, text=True).stdout.strip().splitlines(),
            "add_only": True,
        },
        "engines": [
            {"name": "world", "path": "tools/pipe_world.py", "serves_properties": ["C01", "C02", "C03", "C04", "C05", "C06", "C09", "C11", "C10", "C13", "C15", "C16"],
             "kind_free_text": "spec/WorldStore.tla + MCWorld.tla model-checked by TLC; harness/worlddrv executes histories on real Worlds; spec/TraceWorld.tla validates every event"},
            {"name": "fault", "path": "tools/pipe_fault.py", "serves_properties": ["C17"],
             "kind_free_text": "harness/faultdrv enumerates (operation, call-back kind, position) and injects one panic each; spec/TracePanic.tla validates the ledger and allocator trace"},
            {"name": "sched", "path": "tools/pipe_sched.py", "serves_properties": ["C07", "C08", "C12"],
             "kind_free_text": "spec/Schedule.tla + MCSchedule.tla model-checked by TLC; generated schedule bins run under the brood_verif fork/join shim; spec/TraceSchedule.tla validates every run"},
        ],
        "checks": [],
        "not_applicable": [],
        "notes": "All verdicts are produced by TLC (model checking of the specs, and trace validation of executions of the real code). See DESIGN.md.",
    }
    props = [json.loads(l)["id"] for l in open(os.path.join(V, "properties.jsonl"))]
    for p in props:
        if p in CHECKS:
            lvl, tech, text, note, ref = CHECKS[p]
            m["checks"].append({
                "property_id": p,
                "quick_cmd": "./check %s quick" % p,
                "thorough_cmd": "./check %s thorough" % p,
                "evidence_file": "evidence/%s.json" % p,
                "replay_cmd_template": "./check %s --replay {path}" % p,
                "engine": "sched" if p in ("C07", "C08", "C12") else ("fault" if p == "C17" else ("precond" if p == "C18" else ("borrow" if p == "C14" else "world"))),
                "level_claimed": {"category": lvl, "text": text, "design_ref": "DESIGN.md section " + ref},
                "level_note": note,
                "technique": tech,
            })
        else:
            m["not_applicable"].append({"property_id": p, "reason": NA.get(p, "check not built yet in this round; planned in DESIGN.md section 6")})
    json.dump(m, open(os.path.join(V, "MANIFEST.json"), "w"), indent=1)

NA = {}
if __name__ == "__main__":
    main()
