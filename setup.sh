#!/bin/sh
# Build the framework offline from files on disk only.
set -e
cd "$(dirname "$0")"
export CARGO_NET_OFFLINE=true
mkdir -p work evidence
cd harness
[ -f src/shapes.rs ] || python3 tools/gen_shapes.py src/shapes.rs
[ -f src/bin/preconddrv.rs ] || python3 tools/gen_precond.py src/bin/preconddrv.rs
[ -f src/bin/sched_q00.rs ] || python3 tools/gen_sched.py quick src
cargo build --offline --release 2>&1 | tail -3
