#!/bin/sh
# Build the framework offline from files on disk only.
set -e
cd "$(dirname "$0")"
export CARGO_NET_OFFLINE=true
mkdir -p work evidence
cd harness
[ -f src/shapes.rs ] || python3 tools/gen_shapes.py src/shapes.rs
cargo build --offline --release 2>&1 | tail -3
